// Unit `sbbf` -- the bloom filter kernel under BloomFilterIndex (C20: never drop a matching row).
use vstd::prelude::*;
use vstd::wrapping::u32_specs::wrapping_mul as spec_wrapping_mul_u32;
verus! {

//@extract rust/lance-index/src/scalar/bloomfilter/sbbf.rs :: const SALT
//@end
//@extract rust/lance-index/src/scalar/bloomfilter/sbbf.rs :: struct Block
//@end

// ---- spec of the block operations (from the Parquet SBBF definition quoted in the doc comments:
//      "each word has exactly one bit set"; insert sets those bits; check tests all of them)
pub closed spec fn mask_word(x: u32, i: int) -> u32 {
    1u32 << (spec_wrapping_mul_u32(x, SALT[i]) >> 27)
}
pub closed spec fn spec_block_insert(b: Seq<u32>, h: u32) -> Seq<u32> {
    Seq::new(8, |i: int| b[i] | mask_word(h, i))
}
pub closed spec fn spec_block_check(b: Seq<u32>, h: u32) -> bool {
    forall|i: int| 0 <= i < 8 ==> (#[trigger] b[i]) & mask_word(h, i) != 0
}

impl vstd::std_specs::core::IndexSpecImpl<usize> for Block {
    open spec fn index_req(&self, index: &usize) -> bool { *index < 8 }
}

impl Block {
    pub closed spec fn words(&self) -> Seq<u32> { self.0@ }

//@extract rust/lance-index/src/scalar/bloomfilter/sbbf.rs :: impl Block :: fn mask
//@ name Block::mask
//@ result r
//@ spec
//@|     ensures forall|i: int| 0 <= i < 8 ==> #[trigger] r.0[i] == mask_word(x, i),
//@ loop 1
//@|     invariant forall|j: int| 0 <= j < i ==> #[trigger] result[j] == mask_word(x, j),
//@ at loop:1:body_start
//@|     proof { assert(forall|z: u32| #[trigger] (z >> 27) < 32u32) by (bit_vector); }
//@end

//@extract rust/lance-index/src/scalar/bloomfilter/sbbf.rs :: impl Block :: fn insert
//@ name Block::insert
//@ spec
//@|     ensures final(self).words() =~= spec_block_insert(old(self).words(), hash),
//@ loop 1
//@|     invariant
//@|         forall|j: int| 0 <= j < 8 ==> #[trigger] mask.0[j] == mask_word(hash, j),
//@|         forall|j: int| 0 <= j < i ==> #[trigger] self.0[j] == old(self).0[j] | mask_word(hash, j),
//@|         forall|j: int| i <= j < 8 ==> #[trigger] self.0[j] == old(self).0[j],
//@end

//@extract rust/lance-index/src/scalar/bloomfilter/sbbf.rs :: impl Block :: fn check
//@ name Block::check
//@ result r
//@ spec
//@|     ensures r == spec_block_check(self.words(), hash),
//@ loop 1
//@|     invariant
//@|         forall|j: int| 0 <= j < 8 ==> #[trigger] mask.0[j] == mask_word(hash, j),
//@|         forall|j: int| 0 <= j < i ==> (#[trigger] self.0[j]) & mask_word(hash, j) != 0,
//@end
}

impl std::ops::Index<usize> for Block {
    type Output = u32;
//@extract rust/lance-index/src/scalar/bloomfilter/sbbf.rs :: impl std::ops::Index<usize> for Block :: fn index
//@ name Block::index
//@ result r
//@ spec
//@|     ensures *r == self.words()[index as int],
//@end
}
impl std::ops::IndexMut<usize> for Block {
//@extract rust/lance-index/src/scalar/bloomfilter/sbbf.rs :: impl std::ops::IndexMut<usize> for Block :: fn index_mut
//@ name Block::index_mut
//@ result r
//@ spec
//@|     ensures *r == old(self).words()[index as int],
//@|             final(self).words() =~= old(self).words().update(index as int, *final(r)),
//@end
}

//@extract rust/lance-index/src/scalar/bloomfilter/sbbf.rs :: struct Sbbf
//@end

// ---- filter-level spec
pub closed spec fn spec_block_index(nblocks: int, hash: u64) -> int {
    (((hash >> 32) as int * nblocks) / 0x1_0000_0000) as int
}
pub closed spec fn spec_insert(bs: Seq<Seq<u32>>, hash: u64) -> Seq<Seq<u32>> {
    bs.update(spec_block_index(bs.len() as int, hash), spec_block_insert(bs[spec_block_index(bs.len() as int, hash)], hash as u32))
}
pub closed spec fn spec_check(bs: Seq<Seq<u32>>, hash: u64) -> bool {
    spec_block_check(bs[spec_block_index(bs.len() as int, hash)], hash as u32)
}
pub closed spec fn insert_all(bs: Seq<Seq<u32>>, hs: Seq<u64>) -> Seq<Seq<u32>>
    decreases hs.len()
{
    if hs.len() == 0 { bs } else { spec_insert(insert_all(bs, hs.drop_last()), hs.last()) }
}

impl Sbbf {
    pub closed spec fn view_blocks(&self) -> Seq<Seq<u32>> {
        Seq::new(self.blocks.len() as nat, |i: int| self.blocks[i].words())
    }
    pub closed spec fn nblocks(&self) -> int { self.blocks.len() as int }

//@extract rust/lance-index/src/scalar/bloomfilter/sbbf.rs :: impl Sbbf :: fn hash_to_block_index
//@ name Sbbf::hash_to_block_index
//@ result r
//@ spec
//@|     requires 0 < self.blocks.len() < 0x1_0000_0000,
//@|     ensures r < self.blocks.len(), r as int == spec_block_index(self.blocks.len() as int, hash),
//@ at body_start
//@|     proof { lemma_block_index(hash, self.blocks.len() as u64); }
//@end

//@extract rust/lance-index/src/scalar/bloomfilter/sbbf.rs :: impl Sbbf :: fn insert_hash
//@ name Sbbf::insert_hash
//@ spec
//@|     requires 0 < old(self).nblocks() < 0x1_0000_0000,
//@|     ensures final(self).view_blocks() =~= spec_insert(old(self).view_blocks(), hash),
//@|             final(self).nblocks() == old(self).nblocks(),
//@end

//@extract rust/lance-index/src/scalar/bloomfilter/sbbf.rs :: impl Sbbf :: fn check_hash
//@ name Sbbf::check_hash
//@ result r
//@ spec
//@|     requires 0 < self.nblocks() < 0x1_0000_0000,
//@|     ensures r == spec_check(self.view_blocks(), hash),
//@end
}

proof fn lemma_block_index(hash: u64, n: u64)
    requires 0 < n < 0x1_0000_0000,
    ensures
        ((hash >> 32) as int * n as int) < 0x1_0000_0000 * 0x1_0000_0000,
        ((((hash >> 32) as int * n as int) as u64) >> 32) < n,
        ((((hash >> 32) as int * n as int) as u64) >> 32) as int == ((hash >> 32) as int * n as int) / 0x1_0000_0000,
        0 <= spec_block_index(n as int, hash) < n,
{
    assert(forall|h: u64| #[trigger] (h >> 32) < 0x1_0000_0000u64) by (bit_vector);
    let hi = (hash >> 32) as int;
    let m = n as int;
    assert(hi * m < 0x1_0000_0000 * m) by (nonlinear_arith) requires 0 <= hi < 0x1_0000_0000, m > 0;
    assert(0x1_0000_0000 * m < 0x1_0000_0000 * 0x1_0000_0000) by (nonlinear_arith) requires m < 0x1_0000_0000;
    assert(0 <= hi * m) by (nonlinear_arith) requires 0 <= hi, 0 <= m;
    let p = (hi * m) as u64;
    assert(p < n * 0x1_0000_0000u64 && n < 0x1_0000_0000u64 ==> (p >> 32) < n) by (bit_vector);
    assert(p >> 32 == p / 0x1_0000_0000u64) by (bit_vector);
}

// ---- the property-level statement: after ANY sequence of inserts, every inserted hash checks true
proof fn lemma_mask_word_nonzero(x: u32, i: int)
    requires 0 <= i < 8,
    ensures mask_word(x, i) != 0, mask_word(x, i) & mask_word(x, i) == mask_word(x, i),
{
    let y = spec_wrapping_mul_u32(x, SALT[i]) >> 27;
    assert(forall|z: u32| #[trigger] (z >> 27) < 32u32) by (bit_vector);
    assert(y < 32 ==> (1u32 << y) != 0) by (bit_vector);
    let w = mask_word(x, i);
    assert(w & w == w) by (bit_vector);
}

/// one-step fact 1: insert(h) makes check(h) true
proof fn lemma_insert_then_check(b: Seq<u32>, h: u32)
    requires b.len() == 8,
    ensures spec_block_check(spec_block_insert(b, h), h),
{
    assert forall|i: int| 0 <= i < 8 implies (#[trigger] spec_block_insert(b, h)[i]) & mask_word(h, i) != 0 by {
        lemma_mask_word_nonzero(h, i);
        let w = mask_word(h, i);
        let o = b[i];
        assert(w != 0 ==> (o | w) & w != 0) by (bit_vector);
    }
}

/// one-step fact 2: insert never turns a true check false (bits are only ever set)
proof fn lemma_insert_monotone(b: Seq<u32>, h: u32, g: u32)
    requires b.len() == 8, spec_block_check(b, g),
    ensures spec_block_check(spec_block_insert(b, h), g),
{
    assert forall|i: int| 0 <= i < 8 implies (#[trigger] spec_block_insert(b, h)[i]) & mask_word(g, i) != 0 by {
        let w = mask_word(g, i);
        let v = mask_word(h, i);
        let o = b[i];
        assert(o & w != 0);
        assert(o & w != 0 ==> (o | v) & w != 0) by (bit_vector);
    }
}

pub closed spec fn wf_blocks(bs: Seq<Seq<u32>>) -> bool {
    0 < bs.len() < 0x1_0000_0000 && forall|k: int| 0 <= k < bs.len() ==> (#[trigger] bs[k]).len() == 8
}

proof fn lemma_insert_preserves_wf(bs: Seq<Seq<u32>>, h: u64)
    requires wf_blocks(bs),
    ensures wf_blocks(spec_insert(bs, h)), spec_insert(bs, h).len() == bs.len(),
{
    lemma_block_index(h, bs.len() as u64);
}

proof fn lemma_insert_all_wf(bs: Seq<Seq<u32>>, hs: Seq<u64>)
    requires wf_blocks(bs),
    ensures wf_blocks(insert_all(bs, hs)), insert_all(bs, hs).len() == bs.len(),
    decreases hs.len(),
{
    if hs.len() > 0 {
        lemma_insert_all_wf(bs, hs.drop_last());
        lemma_insert_preserves_wf(insert_all(bs, hs.drop_last()), hs.last());
    }
}

/// filter-level one-step facts
proof fn lemma_filter_step(bs: Seq<Seq<u32>>, h: u64, g: u64)
    requires wf_blocks(bs),
    ensures spec_check(spec_insert(bs, h), h),
            spec_check(bs, g) ==> spec_check(spec_insert(bs, h), g),
{
    lemma_block_index(h, bs.len() as u64);
    lemma_block_index(g, bs.len() as u64);
    let ih = spec_block_index(bs.len() as int, h);
    let ig = spec_block_index(bs.len() as int, g);
    lemma_insert_then_check(bs[ih], h as u32);
    if spec_check(bs, g) {
        if ig == ih {
            lemma_insert_monotone(bs[ih], h as u32, g as u32);
        }
    }
}

/// NO FALSE NEGATIVE, unbounded: for every well-formed start state, every finite insert history
/// `hs` (any length, any order, any duplicates) and every position k, the k-th inserted hash is
/// reported present afterwards.
proof fn theorem_no_false_negative(bs: Seq<Seq<u32>>, hs: Seq<u64>, k: int)
    requires wf_blocks(bs), 0 <= k < hs.len(),
    ensures spec_check(insert_all(bs, hs), hs[k]),
    decreases hs.len(),
{
    let prev = insert_all(bs, hs.drop_last());
    lemma_insert_all_wf(bs, hs.drop_last());
    lemma_filter_step(prev, hs.last(), hs[k]);
    if k < hs.len() - 1 {
        theorem_no_false_negative(bs, hs.drop_last(), k);
        assert(hs.drop_last()[k] == hs[k]);
    }
}

} // verus!
fn main() {}
