// Unit `rowid_sequence` -- multi-segment row id sequence, random access (C34: "a row id sequence holds exactly the ids it
// was built from, in order"; C15: take by position): RowIdSequence::get from rust/lance-table/src/rowids.rs.
use vstd::prelude::*;
verus! {

// ---- context: U64Segment is abstract here: the id list it denotes (its faithfulness per encoding is the business of
// the encoded_array / rowid_bitmap / rowids_real units); len and get are ASSUMED to agree with that list
#[verifier::external_body]
pub struct U64Segment { _p: u8 }
pub uninterp spec fn seg_view(s: &U64Segment) -> Seq<u64>;
impl U64Segment {
    #[verifier::external_body]
    pub fn len(&self) -> (r: usize) ensures r as nat == seg_view(self).len() { unimplemented!() }
    #[verifier::external_body]
    pub fn get(&self, i: usize) -> (r: Option<u64>)
        ensures (i as int) < seg_view(self).len() ==> r == Some(seg_view(self)[i as int]),
                (i as int) >= seg_view(self).len() ==> r is None,
    { unimplemented!() }
}

//@extract rust/lance-table/src/rowids.rs :: struct RowIdSequence
//@end

/// the model: concatenation of the segments' id lists from segment k on
pub open spec fn flat(segs: Seq<U64Segment>, k: int) -> Seq<u64>
    decreases segs.len() - k
{
    if k < 0 || k >= segs.len() { Seq::empty() } else { seg_view(&segs[k]) + flat(segs, k + 1) }
}
pub open spec fn total(segs: Seq<U64Segment>, k: int) -> nat
    decreases k
{
    if k <= 0 { 0 } else { total(segs, k - 1) + seg_view(&segs[k - 1]).len() }
}
pub proof fn lemma_total_mono(segs: Seq<U64Segment>, i: int, j: int)
    requires 0 <= i <= j <= segs.len(),
    ensures total(segs, i) <= total(segs, j),
    decreases j - i
{ if i < j { lemma_total_mono(segs, i, j - 1); } }
pub proof fn lemma_flat_len(segs: Seq<U64Segment>, k: int)
    requires 0 <= k <= segs.len(),
    ensures flat(segs, k).len() + total(segs, k) == total(segs, segs.len() as int),
    decreases segs.len() - k
{ if k < segs.len() { lemma_flat_len(segs, k + 1); } }
/// position idx of the flattened list lies in segment j exactly when total(j) <= idx < total(j+1), at local index idx - total(j)
pub proof fn lemma_flat_index(segs: Seq<U64Segment>, k: int, j: int, idx: int)
    requires 0 <= k <= j < segs.len(), total(segs, j) <= idx < total(segs, j + 1),
    ensures idx - total(segs, k) >= 0, idx - total(segs, k) < flat(segs, k).len(),
            flat(segs, k)[idx - total(segs, k)] == seg_view(&segs[j])[idx - total(segs, j)],
    decreases j - k
{
    lemma_total_mono(segs, k, j);
    lemma_flat_len(segs, k);
    lemma_total_mono(segs, j + 1, segs.len() as int);
    if k == j {
    } else {
        lemma_flat_index(segs, k + 1, j, idx);
        lemma_total_mono(segs, k + 1, j);
    }
}

impl RowIdSequence {
    /// the segments (private field, hence an accessor for the contract)
    pub closed spec fn segs(&self) -> Seq<U64Segment> { self.0@ }

//@extract rust/lance-table/src/rowids.rs :: impl RowIdSequence :: fn get
//@ name RowIdSequence::get
//@ result r
//@ spec
//@|     requires total(self.segs(), self.segs().len() as int) <= usize::MAX,
//@|     ensures (index as int) < flat(self.segs(), 0).len() ==> r == Some(flat(self.segs(), 0)[index as int]),
//@|             (index as int) >= flat(self.segs(), 0).len() ==> r is None,
//@ at loop:1:iter
//@| it
//@ loop 1
//@|     invariant offset as nat == total(self.0@, it.index@ as int), index as int >= offset as int,
//@|         total(self.0@, self.0@.len() as int) <= usize::MAX,
//@ at loop:1:body_start
//@|     proof {
//@|         lemma_total_mono(self.0@, it.index@ as int + 1, self.0@.len() as int);
//@|         assert(total(self.0@, it.index@ as int + 1) == total(self.0@, it.index@ as int) + seg_view(&self.0@[it.index@ as int]).len());
//@|         if (index as int) < offset as int + seg_view(&self.0@[it.index@ as int]).len() {
//@|             lemma_flat_index(self.0@, 0, it.index@ as int, index as int); lemma_flat_len(self.0@, 0);
//@|         }
//@|     }
//@ at loop:1:after
//@|     proof { lemma_flat_len(self.0@, 0); }
//@end
}

} // verus!
fn main() {}
