// Unit `rowid_sequence` -- multi-segment row id sequence (C34: "a row id sequence holds exactly the ids it was built from, in
// order ... slicing ... behave like the same operations on a plain list"; C15: take by position):
// RowIdSequence::{get, slice} and struct RowIdSeqSlice from rust/lance-table/src/rowids.rs.
use vstd::prelude::*;
verus! {

// ---- context: U64Segment is abstract here: the id list it denotes (its faithfulness per encoding is the business of
// the encoded_array / rowid_bitmap / rowids_real units); len and get are ASSUMED to agree with that list
#[verifier::external_body]
pub struct U64Segment { _p: u8 }
pub uninterp spec fn seg_view(s: &U64Segment) -> Seq<u64>;
impl U64Segment {
    #[verifier::external_body]
    pub fn len(&self) -> (r: usize) ensures r as nat == seg_view(self).len() { unimplemented!() }
    #[verifier::external_body]
    pub fn get(&self, i: usize) -> (r: Option<u64>)
        ensures (i as int) < seg_view(self).len() ==> r == Some(seg_view(self)[i as int]),
                (i as int) >= seg_view(self).len() ==> r is None,
    { unimplemented!() }
}

//@extract rust/lance-table/src/rowids.rs :: struct RowIdSequence
//@end

/// the model: concatenation of the segments' id lists from segment k on
pub open spec fn flat(segs: Seq<U64Segment>, k: int) -> Seq<u64>
    decreases segs.len() - k
{
    if k < 0 || k >= segs.len() { Seq::empty() } else { seg_view(&segs[k]) + flat(segs, k + 1) }
}
pub open spec fn total(segs: Seq<U64Segment>, k: int) -> nat
    decreases k
{
    if k <= 0 { 0 } else { total(segs, k - 1) + seg_view(&segs[k - 1]).len() }
}
pub proof fn lemma_total_mono(segs: Seq<U64Segment>, i: int, j: int)
    requires 0 <= i <= j <= segs.len(),
    ensures total(segs, i) <= total(segs, j),
    decreases j - i
{ if i < j { lemma_total_mono(segs, i, j - 1); } }
pub proof fn lemma_flat_len(segs: Seq<U64Segment>, k: int)
    requires 0 <= k <= segs.len(),
    ensures flat(segs, k).len() + total(segs, k) == total(segs, segs.len() as int),
    decreases segs.len() - k
{ if k < segs.len() { lemma_flat_len(segs, k + 1); } }
/// position idx of the flattened list lies in segment j exactly when total(j) <= idx < total(j+1), at local index idx - total(j)
pub proof fn lemma_flat_index(segs: Seq<U64Segment>, k: int, j: int, idx: int)
    requires 0 <= k <= j < segs.len(), total(segs, j) <= idx < total(segs, j + 1),
    ensures idx - total(segs, k) >= 0, idx - total(segs, k) < flat(segs, k).len(),
            flat(segs, k)[idx - total(segs, k)] == seg_view(&segs[j])[idx - total(segs, j)],
    decreases j - k
{
    lemma_total_mono(segs, k, j);
    lemma_flat_len(segs, k);
    lemma_total_mono(segs, j + 1, segs.len() as int);
    if k == j {
    } else {
        lemma_flat_index(segs, k + 1, j, idx);
        lemma_total_mono(segs, k + 1, j);
    }
}

/// flat(segs, k) is flat(segs, 0) without its first total(segs, k) elements
pub proof fn lemma_flat_skip(segs: Seq<U64Segment>, k: int)
    requires 0 <= k <= segs.len(),
    ensures flat(segs, 0).len() == total(segs, segs.len() as int), total(segs, k) <= flat(segs, 0).len(),
            flat(segs, 0).skip(total(segs, k) as int) =~= flat(segs, k),
    decreases k
{
    lemma_flat_len(segs, 0);
    lemma_total_mono(segs, k, segs.len() as int);
    if k == 0 {
    } else {
        lemma_flat_skip(segs, k - 1);
        lemma_total_mono(segs, k - 1, segs.len() as int);
        lemma_flat_len(segs, k - 1);
        // flat(k-1) = view(k-1) + flat(k)
        assert(flat(segs, k - 1) =~= seg_view(&segs[k - 1]) + flat(segs, k));
        assert(flat(segs, 0).skip(total(segs, k) as int) =~= flat(segs, 0).skip(total(segs, k - 1) as int).skip(seg_view(&segs[k - 1]).len() as int));
    }
}
/// the first total(b+1)-total(a) elements of flat(segs, a) are the flattening of segments a..=b
pub proof fn lemma_flat_sub(segs: Seq<U64Segment>, a: int, b: int)
    requires 0 <= a <= b + 1 <= segs.len(),
    ensures total(segs, a) <= total(segs, b + 1),
            flat(segs.subrange(a, b + 1), 0) =~= flat(segs, a).take(total(segs, b + 1) - total(segs, a)),
    decreases b + 1 - a
{
    lemma_total_mono(segs, a, b + 1);
    lemma_flat_len(segs, a);
    lemma_total_mono(segs, b + 1, segs.len() as int);
    let sub = segs.subrange(a, b + 1);
    if a == b + 1 {
        assert(sub.len() == 0);
    } else {
        lemma_flat_sub(segs, a + 1, b);
        let sub2 = segs.subrange(a + 1, b + 1);
        assert(sub[0] == segs[a]);
        assert(flat(sub, 0) =~= seg_view(&sub[0]) + flat(sub, 1));
        lemma_flat_shift(sub, sub2, 1);
        assert(flat(sub, 1) =~= flat(sub2, 0));
        assert(flat(segs, a) =~= seg_view(&segs[a]) + flat(segs, a + 1));
        assert(total(segs, a + 1) == total(segs, a) + seg_view(&segs[a]).len());
    }
}
/// flattening from index k of s equals flattening from index 0 of s.skip(k)
pub proof fn lemma_flat_shift(s: Seq<U64Segment>, t: Seq<U64Segment>, k: int)
    requires 0 <= k <= s.len(), t =~= s.skip(k),
    ensures flat(s, k) =~= flat(t, 0),
    decreases s.len() - k
{
    if k < s.len() {
        lemma_flat_shift(s, s.skip(k + 1), k + 1);
        lemma_flat_shift(t, t.skip(1), 1);
        assert(t.skip(1) =~= s.skip(k + 1));
        assert(t[0] == s[k]);
    }
}
/// the ids a RowIdSeqSlice denotes (read off RowIdSeqSlice::iter: first segment from offset_start, middle segments
/// whole, last segment up to offset_last) = flatten the covered segments, drop offset_start from the front, stop at
/// offset_last inside the last one
pub open spec fn denote(sg: Seq<U64Segment>, os: int, ol: int) -> Seq<u64> {
    if sg.len() == 0 { Seq::empty() } else { flat(sg, 0).subrange(os, total(sg, sg.len() as int - 1) + ol) }
}
pub proof fn lemma_total_sub(segs: Seq<U64Segment>, a: int, b: int, k: int)
    requires 0 <= a <= b + 1 <= segs.len(), 0 <= k <= b + 1 - a,
    ensures total(segs.subrange(a, b + 1), k) == total(segs, a + k) - total(segs, a),
    decreases k
{
    lemma_total_mono(segs, a, a + k);
    if k > 0 { lemma_total_sub(segs, a, b, k - 1); assert(segs.subrange(a, b + 1)[k - 1] == segs[a + k - 1]); }
}
/// positional description of a slice (what `slice` ensures) ==> it denotes exactly flat[offset, offset+len)
pub proof fn lemma_slice_denotes(segs: Seq<U64Segment>, a: int, b: int, os: int, ol: int, offset: int, len: int)
    requires 0 <= a <= b < segs.len(), len > 0,
        total(segs, a) + os == offset, 0 <= os < seg_view(&segs[a]).len(),
        total(segs, b) + ol == offset + len, 0 < ol <= seg_view(&segs[b]).len(),
    ensures offset + len <= flat(segs, 0).len(),
        denote(segs.subrange(a, b + 1), os, ol) =~= flat(segs, 0).subrange(offset, offset + len),
{
    let sub = segs.subrange(a, b + 1);
    lemma_flat_skip(segs, a);
    lemma_flat_sub(segs, a, b);
    lemma_total_sub(segs, a, b, b - a);
    lemma_total_mono(segs, a, b);
    lemma_total_mono(segs, b + 1, segs.len() as int);
    lemma_flat_len(segs, a);
    assert(total(segs, b + 1) == total(segs, b) + seg_view(&segs[b]).len());
    let f0 = flat(segs, 0);
    let fa = flat(segs, a);
    let w = total(segs, b + 1) - total(segs, a);
    assert(flat(sub, 0) =~= fa.take(w));
    assert(fa =~= f0.skip(total(segs, a) as int));
    assert(total(sub, sub.len() as int - 1) + ol == offset + len - total(segs, a));
}

//@extract rust/lance-table/src/rowids.rs :: struct RowIdSeqSlice
//@end

impl<'a> RowIdSeqSlice<'a> {
    pub closed spec fn sg(&self) -> Seq<U64Segment> { self.segments@ }
    pub closed spec fn os(&self) -> int { self.offset_start as int }
    pub closed spec fn ol(&self) -> int { self.offset_last as int }
}

impl RowIdSequence {
    /// the segments (private field, hence an accessor for the contract)
    pub closed spec fn segs(&self) -> Seq<U64Segment> { self.0@ }

//@extract rust/lance-table/src/rowids.rs :: impl RowIdSequence :: fn get
//@ name RowIdSequence::get
//@ result r
//@ spec
//@|     requires total(self.segs(), self.segs().len() as int) <= usize::MAX,
//@|     ensures (index as int) < flat(self.segs(), 0).len() ==> r == Some(flat(self.segs(), 0)[index as int]),
//@|             (index as int) >= flat(self.segs(), 0).len() ==> r is None,
//@ at loop:1:iter
//@| it
//@ loop 1
//@|     invariant offset as nat == total(self.0@, it.index@ as int), index as int >= offset as int,
//@|         total(self.0@, self.0@.len() as int) <= usize::MAX,
//@ at loop:1:body_start
//@|     proof {
//@|         lemma_total_mono(self.0@, it.index@ as int + 1, self.0@.len() as int);
//@|         assert(total(self.0@, it.index@ as int + 1) == total(self.0@, it.index@ as int) + seg_view(&self.0@[it.index@ as int]).len());
//@|         if (index as int) < offset as int + seg_view(&self.0@[it.index@ as int]).len() {
//@|             lemma_flat_index(self.0@, 0, it.index@ as int, index as int); lemma_flat_len(self.0@, 0);
//@|         }
//@|     }
//@ at loop:1:after
//@|     proof { lemma_flat_len(self.0@, 0); }
//@end
//@extract rust/lance-table/src/rowids.rs :: impl RowIdSequence :: fn slice
//@ name RowIdSequence::slice
//@ result r
//@ spec
//@|     requires total(self.segs(), self.segs().len() as int) <= usize::MAX,
//@|              len > 0 ==> offset + len <= total(self.segs(), self.segs().len() as int),
//@|     ensures
//@|         len == 0 ==> r.sg().len() == 0,
//@|         // the slice starts in segment a at local offset_start and ends in segment b at local offset_last ...
//@|         len > 0 ==> exists|a: int, b: int| 0 <= a <= b < self.segs().len()
//@|             && r.sg() == self.segs().subrange(a, b + 1)
//@|             && total(self.segs(), a) + r.os() == offset
//@|             && 0 <= r.os() < seg_view(&self.segs()[a]).len()
//@|             && total(self.segs(), b) + r.ol() == offset + len
//@|             && 0 < r.ol() <= seg_view(&self.segs()[b]).len(),
//@|         // ... hence (lemma_slice_denotes) it denotes exactly the ids at positions [offset, offset+len) of the plain list
//@|         len > 0 ==> denote(r.sg(), r.os(), r.ol()) =~= flat(self.segs(), 0).subrange(offset as int, offset + len),
//@ at loop:1:iter
//@| it
//@ loop 1
//@|     invariant_except_break segment_offset == it.index@,
//@|     invariant segment_offset <= self.0@.len(),
//@|         offset_start as nat + total(self.0@, segment_offset as int) == offset,
//@|         total(self.0@, self.0@.len() as int) <= usize::MAX,
//@|         offset + len <= total(self.0@, self.0@.len() as int), len > 0,
//@|     ensures segment_offset < self.0@.len(), (offset_start as int) < seg_view(&self.0@[segment_offset as int]).len(),
//@ at loop:1:body_start
//@|     proof { let ghost n_ = self.0.len(); assert(it.index@ < self.0@.len()); lemma_total_mono(self.0@, segment_offset as int + 1, self.0@.len() as int); }
//@ at loop:2:iter
//@| it2
//@ loop 2
//@|     invariant_except_break segment_offset_last == segment_offset + it2.index@,
//@|     invariant segment_offset <= segment_offset_last <= self.0@.len(), segment_offset < self.0@.len(),
//@|         offset_last as nat + total(self.0@, segment_offset_last as int) == offset + len,
//@|         total(self.0@, self.0@.len() as int) <= usize::MAX, offset_last > 0,
//@|         offset + len <= total(self.0@, self.0@.len() as int),
//@|     ensures segment_offset_last < self.0@.len(), (offset_last as int) <= seg_view(&self.0@[segment_offset_last as int]).len(),
//@ at loop:2:body_start
//@|     proof { let ghost n_ = self.0.len(); assert(segment_offset + it2.index@ < self.0@.len()); lemma_total_mono(self.0@, segment_offset_last as int + 1, self.0@.len() as int); }
//@ at loop:2:after
//@|     proof { lemma_slice_denotes(self.0@, segment_offset as int, segment_offset_last as int, offset_start as int, offset_last as int, offset as int, len as int); }
//@end
}

} // verus!
fn main() {}
