// Unit `mask_len` -- C21 ("size"): RowIdMask::max_len is an upper bound of the number of selected rows.
// Context (assumptions): RowIdTreeMap is abstract with view(): Set<u64>; `len` is assumed to be the set's cardinality when
// it answers (that is what the `treemap` Kani unit proves for the real text: `len_counts_members`).
use vstd::prelude::*;
verus! {

#[verifier::external_body]
pub struct RowIdTreeMap { _p: core::marker::PhantomData<u64> }
impl View for RowIdTreeMap { type V = Set<u64>; uninterp spec fn view(&self) -> Set<u64>; }
impl RowIdTreeMap {
    #[verifier::external_body]
    pub fn len(&self) -> (r: Option<u64>) ensures r is Some ==> r->0 == self@.len() { unimplemented!() }
}

//@extract rust/lance-core/src/utils/mask.rs :: struct RowIdMask
//@end

impl RowIdMask {
    /// the set of row ids a mask selects (from the struct's documentation and the property statement)
    pub open spec fn sel(&self, x: u64) -> bool {
        (self.allow_list is None || self.allow_list->0@.contains(x)) &&
        (self.block_list is None || !self.block_list->0@.contains(x))
    }
    /// for a mask WITH an allow list the selected rows form this (finite) set; without one the selection is co-finite
    /// and has no size
    pub open spec fn selected_set(&self) -> Set<u64>
        recommends self.allow_list is Some
    {
        if self.block_list is Some { self.allow_list->0@.difference(self.block_list->0@) } else { self.allow_list->0@ }
    }
}

pub proof fn lemma_selected_set(m: &RowIdMask)
    requires m.allow_list is Some,
    ensures forall|x: u64| m.sel(x) <==> #[trigger] m.selected_set().contains(x),
{}

impl RowIdMask {
//@extract rust/lance-core/src/utils/mask.rs :: impl RowIdMask :: fn max_len
//@ name RowIdMask::max_len
//@ result r
//@ spec
//@|     ensures
//@|         r is Some ==> self.allow_list is Some && self.selected_set().len() <= r->0,
//@|         // a mask without a block list whose allow list can be counted is counted exactly
//@|         r is Some && self.block_list is None ==> self.selected_set().len() == r->0,
//@|         self.allow_list is None ==> r is None,
//@ at body_start
//@|     proof {
//@|         if self.allow_list is Some {
//@|             let a = self.allow_list->0@;
//@|             assert(self.selected_set().subset_of(a));
//@|             vstd::set_lib::lemma_len_subset(self.selected_set(), a);
//@|             if self.block_list is None { assert(self.selected_set() =~= a); }
//@|         }
//@|     }
//@end
}

} // verus!
fn main() {}
