// Unit `address` -- row address packing (C15: take by address resolves to the row a scan shows there).
use vstd::prelude::*;
use std::ops::Range;
verus! {

//@extract rust/lance-core/src/utils/address.rs :: struct RowAddress
//@end

pub open spec fn pack(f: int, o: int) -> int { f * 0x1_0000_0000 + o }

impl RowAddress {
    pub closed spec fn addr(&self) -> int { self.0 as int }

//@implconsts rust/lance-core/src/utils/address.rs :: impl RowAddress

//@extract rust/lance-core/src/utils/address.rs :: impl RowAddress :: fn new_from_u64
//@ name RowAddress::new_from_u64
//@ result r
//@ spec
//@|     ensures r.addr() == row_addr as int,
//@end

//@extract rust/lance-core/src/utils/address.rs :: impl RowAddress :: fn new_from_parts
//@ name RowAddress::new_from_parts
//@ result r
//@ spec
//@|     ensures r.addr() == pack(fragment_id as int, row_offset as int),
//@ at body_start
//@|     proof {
//@|         assert((((fragment_id as u64) << 32) | row_offset as u64) == (fragment_id as u64) * 0x1_0000_0000u64 + row_offset as u64) by (bit_vector);
//@|         assert((fragment_id as u64) * 0x1_0000_0000u64 + row_offset as u64 == fragment_id as int * 0x1_0000_0000 + row_offset as int) by (nonlinear_arith);
//@|     }
//@end

//@extract rust/lance-core/src/utils/address.rs :: impl RowAddress :: fn first_row
//@ name RowAddress::first_row
//@ result r
//@ spec
//@|     ensures r.addr() == pack(fragment_id as int, 0),
//@end

//@extract rust/lance-core/src/utils/address.rs :: impl RowAddress :: fn address_range
//@ name RowAddress::address_range
//@ result r
//@ spec
//@|     requires fragment_id < u32::MAX,   // TOMBSTONE_FRAG has no successor fragment: `fragment_id + 1` would overflow
//@|     ensures r.start as int == pack(fragment_id as int, 0), r.end as int == pack(fragment_id as int + 1, 0),
//@end

//@extract rust/lance-core/src/utils/address.rs :: impl RowAddress :: fn fragment_id
//@ name RowAddress::fragment_id
//@ result r
//@ spec
//@|     ensures r as int == self.addr() / 0x1_0000_0000,
//@ at body_start
//@|     proof {
//@|         let v = self.0;
//@|         assert(((v >> 32) as u32) as u64 == v / 0x1_0000_0000u64) by (bit_vector);
//@|     }
//@end

//@extract rust/lance-core/src/utils/address.rs :: impl RowAddress :: fn row_offset
//@ name RowAddress::row_offset
//@ result r
//@ spec
//@|     ensures r as int == self.addr() % 0x1_0000_0000,
//@ at body_start
//@|     proof {
//@|         let v = self.0;
//@|         assert((v as u32) as u64 == v % 0x1_0000_0000u64) by (bit_vector);
//@|     }
//@end
}

impl vstd::std_specs::convert::FromSpecImpl<RowAddress> for u64 {
    open spec fn obeys_from_spec() -> bool { false }
    open spec fn from_spec(v: RowAddress) -> Self { arbitrary() }
}
impl vstd::std_specs::convert::FromSpecImpl<u64> for RowAddress {
    open spec fn obeys_from_spec() -> bool { false }
    open spec fn from_spec(v: u64) -> Self { arbitrary() }
}
impl From<RowAddress> for u64 {
//@extract rust/lance-core/src/utils/address.rs :: impl From<RowAddress> for u64 :: fn from
//@ name impl&%3::from
//@ result r
//@ spec
//@|     ensures r as int == row_addr.addr(),
//@end
}

impl From<u64> for RowAddress {
//@extract rust/lance-core/src/utils/address.rs :: impl From<u64> for RowAddress :: fn from
//@ name RowAddress::from
//@ result r
//@ spec
//@|     ensures r.addr() == row_addr as int,
//@end
}

/// packing is a bijection between u32 x u32 and u64: unpack(pack(f,o)) = (f,o) and pack(unpack(a)) = a.
/// Together with the contracts above: fragment_id(new_from_parts(f,o)) = f, row_offset(..) = o, and two
/// addresses are equal iff both parts are.
pub proof fn lemma_pack_unpack(f: int, o: int, a: int)
    requires 0 <= f < 0x1_0000_0000, 0 <= o < 0x1_0000_0000, 0 <= a < 0x1_0000_0000_0000_0000,
    ensures
        pack(f, o) / 0x1_0000_0000 == f,
        pack(f, o) % 0x1_0000_0000 == o,
        0 <= pack(f, o) < 0x1_0000_0000_0000_0000,
        pack(a / 0x1_0000_0000, a % 0x1_0000_0000) == a,
{
    assert(pack(f, o) / 0x1_0000_0000 == f && pack(f, o) % 0x1_0000_0000 == o) by (nonlinear_arith)
        requires 0 <= f, 0 <= o < 0x1_0000_0000, pack(f, o) == f * 0x1_0000_0000 + o;
    assert(f * 0x1_0000_0000 <= 0xffff_ffff * 0x1_0000_0000) by (nonlinear_arith) requires f <= 0xffff_ffff;
}

pub proof fn lemma_pack_injective(f1: int, o1: int, f2: int, o2: int)
    requires 0 <= f1 < 0x1_0000_0000, 0 <= o1 < 0x1_0000_0000, 0 <= f2 < 0x1_0000_0000, 0 <= o2 < 0x1_0000_0000,
        pack(f1, o1) == pack(f2, o2),
    ensures f1 == f2, o1 == o2,
{
    lemma_pack_unpack(f1, o1, 0);
    lemma_pack_unpack(f2, o2, 0);
}

/// address ranges of different fragments never overlap and rows of fragment f lie inside address_range(f)
pub proof fn lemma_ranges_disjoint(f: int, g: int, o: int)
    requires 0 <= f < g < 0x1_0000_0000, 0 <= o < 0x1_0000_0000,
    ensures pack(f, 0) <= pack(f, o) < pack(f + 1, 0) <= pack(g, 0),
{
    assert((f + 1) * 0x1_0000_0000 <= g * 0x1_0000_0000) by (nonlinear_arith) requires f + 1 <= g;
    assert((f + 1) * 0x1_0000_0000 == f * 0x1_0000_0000 + 0x1_0000_0000) by (nonlinear_arith);
}

} // verus!
fn main() {}
