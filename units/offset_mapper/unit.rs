// Unit `offset_mapper` -- C15: take by offset returns exactly the row a scan shows at that position.
use vstd::prelude::*;
use std::sync::Arc;
verus! {

// ---------- context: abstract DeletionVector with assumed contracts (audited by execution) ----------
#[verifier::external_body]
pub struct DeletionVector { _p: core::marker::PhantomData<u32> }

impl View for DeletionVector {
    type V = Set<u32>;
    uninterp spec fn view(&self) -> Set<u32>;
}

/// number of deleted offsets strictly below n
pub open spec fn cb(s: Set<u32>, n: int) -> int
    decreases n
{
    if n <= 0 { 0 } else { cb(s, n - 1) + if s.contains((n - 1) as u32) { 1int } else { 0int } }
}
pub open spec fn total(s: Set<u32>) -> int { cb(s, 0x1_0000_0000) }
/// (number of live offsets in [0..=m]) - 1
pub open spec fn g(s: Set<u32>, m: int) -> int { m - cb(s, m + 1) }

pub proof fn lemma_cb_step(s: Set<u32>, a: int, b: int)
    requires 0 <= a <= b
    ensures 0 <= cb(s, b) - cb(s, a) <= b - a
    decreases b - a
{
    if a < b { lemma_cb_step(s, a, b - 1); }
}
pub proof fn lemma_cb_bounds(s: Set<u32>, n: int)
    requires 0 <= n <= 0x1_0000_0000
    ensures 0 <= cb(s, n) <= n, cb(s, n) <= total(s)
{
    lemma_cb_step(s, 0, n);
    lemma_cb_step(s, n, 0x1_0000_0000);
}
pub proof fn lemma_g_mono(s: Set<u32>, a: int, b: int)
    requires 0 <= a <= b
    ensures g(s, a) <= g(s, b)
{
    lemma_cb_step(s, a + 1, b + 1);
}

impl DeletionVector {
    #[verifier::external_body]
    pub fn len(&self) -> (r: usize)
        ensures r as int == total(self@)
    { unimplemented!() }

    #[verifier::external_body]
    pub fn contains(&self, i: u32) -> (r: bool)
        ensures r == self@.contains(i)
    { unimplemented!() }

    #[verifier::external_body]
    fn range_cardinality(&self, range: std::ops::Range<u32>) -> (r: u64)
        requires range.start <= range.end
        ensures r as int == cb(self@, range.end as int) - cb(self@, range.start as int)
    { unimplemented!() }
}

//@extract rust/lance-core/src/utils/deletion.rs :: struct OffsetMapper
//@end

impl OffsetMapper {
    pub closed spec fn dvs(&self) -> Set<u32> { self.dv@ }
    pub closed spec fn left_(&self) -> int { self.left as int }
    pub closed spec fn diff_(&self) -> int { self.last_diff as int }

    /// state is usable for `offset`: everything below `left` comes before the answer.  This is the
    /// documented "monotonically increasing sequence of input offsets" precondition made precise;
    /// `new` establishes it for every offset and `map_offset(o)` re-establishes it for every o2 >= o.
    pub open spec fn ready_for(&self, offset: int) -> bool {
        &&& self.left_() <= offset + self.diff_()
        &&& self.diff_() <= total(self.dvs())
        &&& forall|m: int| 0 <= m < self.left_() ==> g(self.dvs(), m) < offset
    }

//@extract rust/lance-core/src/utils/deletion.rs :: impl OffsetMapper :: fn new
//@ name OffsetMapper::new
//@ result r
//@ spec
//@|     ensures r.dvs() == dv@, forall|o: int| o >= 0 ==> r.ready_for(o),
//@ at body_start
//@|     proof { lemma_cb_bounds(dv@, 0x1_0000_0000); }
//@end

//@extract rust/lance-core/src/utils/deletion.rs :: impl OffsetMapper :: fn map_offset
//@ name OffsetMapper::map_offset
//@ rules R1 R4
//@ result r
//@ spec
//@|     requires
//@|         old(self).ready_for(offset as int),
//@|         offset as int + total(old(self).dvs()) < u32::MAX as int,
//@|     ensures
//@|         final(self).dvs() == old(self).dvs(),
//@|         // r is the row a scan shows at position `offset`: live, with exactly `offset` live rows before it
//@|         !old(self).dvs().contains(r),
//@|         r as int - cb(old(self).dvs(), r as int) == offset as int,
//@|         // monotone reuse: ready for every later offset
//@|         forall|o2: int| o2 >= offset as int ==> final(self).ready_for(o2),
//@ at body_start
//@|     let ghost d = self.dv@;
//@|     let ghost tot = total(d);
//@|     proof { lemma_cb_bounds(d, 0x1_0000_0000); }
//@ at loop:1:before
//@|     proof { lemma_cb_bounds(d, right as int + 1); }
//@ loop 1
//@|     invariant
//@|         self.dv@ == d, tot == total(d), tot >= 0,
//@|         offset as int + tot < u32::MAX as int,
//@|         self.left as int <= mid as int <= right as int <= offset as int + tot,
//@|         self.last_diff as int <= tot,
//@|         forall|m: int| 0 <= m < self.left as int ==> g(d, m) < offset as int,
//@|         g(d, right as int) >= offset as int,
//@|     decreases right - self.left, (if mid == right { 1int } else { 0int }),
//@ at loop:1:stmt:1:after
//@|     proof {
//@|         lemma_cb_bounds(d, mid as int + 1);
//@|         assert(deleted_in_range as int == cb(d, mid as int + 1));
//@|         if mid > 0 { lemma_cb_step(d, mid as int, mid as int + 1); }
//@|     }
//@ at match:1:arm:1:stmt:2:before
//@|     proof {
//@|         assert(cb(d, mid as int + 1) == cb(d, mid as int));
//@|         assert forall|o2: int| o2 >= offset as int implies self.ready_for(o2) by {
//@|             assert forall|m: int| 0 <= m < self.left_() implies g(self.dvs(), m) < o2 by {}
//@|         }
//@|     }
//@ at match:1:arm:2:start
//@|     proof {
//@|         assert(g(d, mid as int) < offset as int);
//@|         assert forall|m: int| 0 <= m < mid as int + 1 implies g(d, m) < offset as int by {
//@|             lemma_g_mono(d, m, mid as int);
//@|         }
//@|     }
//@ at match:1:arm:3:start
//@|     proof {
//@|         assert(g(d, mid as int) >= offset as int);
//@|         if self.left == right {
//@|             if mid == 0 {
//@|                 assert(cb(d, 1) == cb(d, 0) + if d.contains(0u32) { 1int } else { 0int });
//@|                 assert(false);
//@|             } else {
//@|                 let p = mid as int - 1;
//@|                 assert(g(d, p) < offset as int);
//@|                 assert(cb(d, mid as int + 1) == cb(d, mid as int) + if d.contains(mid) { 1int } else { 0int });
//@|                 assert(false);
//@|             }
//@|         }
//@|     }
//@end
}

/// the two result postconditions pin the answer down uniquely: it IS the n-th live row
pub proof fn lemma_answer_unique(d: Set<u32>, o: int, a: int, b: int)
    requires 0 <= a < 0x1_0000_0000, 0 <= b < 0x1_0000_0000,
        !d.contains(a as u32), !d.contains(b as u32),
        a - cb(d, a) == o, b - cb(d, b) == o,
    ensures a == b
{
    if a < b {
        lemma_cb_step(d, a + 1, b);
        assert(cb(d, a + 1) == cb(d, a));
    } else if b < a {
        lemma_cb_step(d, b + 1, a);
        assert(cb(d, b + 1) == cb(d, b));
    }
}

} // verus!
fn main() {}
