// Unit `encoded_array` -- EncodedU64Array accessors against the abstract u64 sequence (C34).
use vstd::prelude::*;
use vstd::std_specs::cmp::*;
use core::cmp::Ordering;
verus! {

// ---- assumed contracts of std (trusted, listed in the evidence)
pub open spec fn le_<T: Ord>(a: T, b: T) -> bool { a.cmp_spec(&b) != Ordering::Greater }
pub open spec fn lt_<T: Ord>(a: T, b: T) -> bool { a.cmp_spec(&b) == Ordering::Less }
pub open spec fn sorted_<T: Ord>(s: Seq<T>) -> bool { forall|i: int, j: int| 0 <= i <= j < s.len() ==> le_(s[i], s[j]) }

pub assume_specification<T: Ord> [<[T]>::binary_search] (s: &[T], x: &T) -> (r: Result<usize, usize>)
    ensures
        T::obeys_cmp_spec() && sorted_(s@) ==> match r {
            Ok(i) => i < s@.len() && s@[i as int].cmp_spec(x) == Ordering::Equal,
            Err(i) => i <= s@.len() && (forall|j: int| 0 <= j < i ==> lt_(#[trigger] s@[j], *x))
                        && (forall|j: int| i <= j < s@.len() ==> lt_(*x, #[trigger] s@[j])),
        };

pub assume_specification<'a, T: Copy> [Option::<&'a T>::copied] (o: Option<&'a T>) -> (r: Option<T>)
    ensures o is None ==> r is None, o is Some ==> r == Some(*o->Some_0);

//@extract rust/lance-table/src/rowids/encoded_array.rs :: enum EncodedU64Array
//@end

impl EncodedU64Array {
    /// the u64 sequence the array denotes
    pub open spec fn view(&self) -> Seq<int> {
        match self {
            EncodedU64Array::U16 { base, offsets } => Seq::new(offsets@.len(), |i: int| *base as int + offsets@[i] as int),
            EncodedU64Array::U32 { base, offsets } => Seq::new(offsets@.len(), |i: int| *base as int + offsets@[i] as int),
            EncodedU64Array::U64(values) => Seq::new(values@.len(), |i: int| values@[i] as int),
        }
    }
    /// representation invariant: every denoted value fits in u64 (base + offset does not overflow)
    pub open spec fn wf(&self) -> bool {
        forall|i: int| 0 <= i < self.view().len() ==> 0 <= #[trigger] self.view()[i] <= u64::MAX as int
    }
    pub open spec fn sorted(&self) -> bool {
        forall|i: int, j: int| 0 <= i <= j < self.view().len() ==> self.view()[i] <= self.view()[j]
    }

//@extract rust/lance-table/src/rowids/encoded_array.rs :: impl EncodedU64Array :: fn len
//@ name EncodedU64Array::len
//@ result r
//@ spec
//@|     ensures r as int == self.view().len(),
//@end

//@extract rust/lance-table/src/rowids/encoded_array.rs :: impl EncodedU64Array :: fn get
//@ name EncodedU64Array::get
//@ result r
//@ spec
//@|     requires self.wf(),
//@|     ensures (i as int) < self.view().len() ==> r == Some(self.view()[i as int] as u64),
//@|             (i as int) >= self.view().len() ==> r is None,
//@ at body_start
//@|     proof { if (i as int) < self.view().len() { assert(0 <= self.view()[i as int] <= u64::MAX as int); } }
//@end

//@extract rust/lance-table/src/rowids/encoded_array.rs :: impl EncodedU64Array :: fn first
//@ name EncodedU64Array::first
//@ result r
//@ spec
//@|     requires self.wf(),
//@|     ensures self.view().len() > 0 ==> r == Some(self.view()[0] as u64),
//@|             self.view().len() == 0 ==> r is None,
//@ at body_start
//@|     proof { if 0 < self.view().len() { assert(0 <= self.view()[0] <= u64::MAX as int); } }
//@end

//@extract rust/lance-table/src/rowids/encoded_array.rs :: impl EncodedU64Array :: fn last
//@ name EncodedU64Array::last
//@ result r
//@ spec
//@|     requires self.wf(),
//@|     ensures self.view().len() > 0 ==> r == Some(self.view()[self.view().len() - 1] as u64),
//@|             self.view().len() == 0 ==> r is None,
//@ at body_start
//@|     proof { if 0 < self.view().len() { assert(0 <= self.view()[self.view().len() - 1] <= u64::MAX as int); } }
//@end

//@extract rust/lance-table/src/rowids/encoded_array.rs :: impl EncodedU64Array :: fn binary_search
//@ name EncodedU64Array::binary_search
//@ result r
//@ spec
//@|     requires self.wf(), self.sorted(),
//@|     ensures match r {
//@|         Ok(i) => (i as int) < self.view().len() && self.view()[i as int] == val as int,
//@|         Err(i) => (i as int) <= self.view().len()
//@|             && (forall|j: int| 0 <= j < i as int ==> #[trigger] self.view()[j] < val as int)
//@|             && (forall|j: int| i as int <= j < self.view().len() ==> #[trigger] self.view()[j] > val as int),
//@|     },
//@ at body_start
//@|     proof {
//@|         match self {
//@|             EncodedU64Array::U16 { base, offsets } => {
//@|                 assert forall|i: int, j: int| 0 <= i <= j < offsets@.len() implies le_(offsets@[i], offsets@[j]) by {
//@|                     assert(self.view()[i] <= self.view()[j]);
//@|                 }
//@|                 assert forall|i: int| 0 <= i < offsets@.len() implies *base as int + (#[trigger] offsets@[i]) as int <= u64::MAX as int by {
//@|                     assert(0 <= self.view()[i] <= u64::MAX as int);
//@|                 }
//@|             }
//@|             EncodedU64Array::U32 { base, offsets } => {
//@|                 assert forall|i: int, j: int| 0 <= i <= j < offsets@.len() implies le_(offsets@[i], offsets@[j]) by {
//@|                     assert(self.view()[i] <= self.view()[j]);
//@|                 }
//@|                 assert forall|i: int| 0 <= i < offsets@.len() implies *base as int + (#[trigger] offsets@[i]) as int <= u64::MAX as int by {
//@|                     assert(0 <= self.view()[i] <= u64::MAX as int);
//@|                 }
//@|             }
//@|             EncodedU64Array::U64(values) => {
//@|                 assert forall|i: int, j: int| 0 <= i <= j < values@.len() implies le_(values@[i], values@[j]) by {
//@|                     assert(self.view()[i] <= self.view()[j]);
//@|                 }
//@|             }
//@|         }
//@|     }
//@end
}

} // verus!
fn main() {}
