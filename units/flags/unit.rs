// Unit `flags` -- readers and writers refuse any feature bit they do not know (C37).
use vstd::prelude::*;
verus! {

//@consts rust/lance-table/src/feature_flags.rs :: FLAG_[A-Z0-9_]+
// generated from the NAMES of all FLAG_* consts except FLAG_UNKNOWN found in the working tree:
//@flagset rust/lance-table/src/feature_flags.rs :: FLAG_[A-Z0-9_]+ :: FLAG_UNKNOWN

/// "a flag word carries no bit the implementation does not know"
pub open spec fn only_known_bits(flags: u64) -> bool { flags & !gen_known_mask() == 0 }

pub proof fn lemma_below_pow2(f: u64, u: u64)
    requires u != 0, u & sub(u, 1) == 0,
    ensures (f < u) == (f & !sub(u, 1) == 0),
{
    assert(u != 0 && u & sub(u, 1) == 0 ==> ((f < u) == (f & !sub(u, 1) == 0))) by (bit_vector);
}

//@extract rust/lance-table/src/feature_flags.rs :: fn can_read_dataset
//@ name can_read_dataset
//@ result r
//@ spec
//@|     ensures r == only_known_bits(reader_flags),
//@ at body_start
//@|     proof { gen_lemma_flag_layout(); lemma_below_pow2(reader_flags, FLAG_UNKNOWN); }
//@end

//@extract rust/lance-table/src/feature_flags.rs :: fn can_write_dataset
//@ name can_write_dataset
//@ result r
//@ spec
//@|     ensures r == only_known_bits(writer_flags),
//@ at body_start
//@|     proof { gen_lemma_flag_layout(); lemma_below_pow2(writer_flags, FLAG_UNKNOWN); }
//@end

//@extract rust/lance-table/src/feature_flags.rs :: fn has_deprecated_v2_feature_flag
//@ name has_deprecated_v2_feature_flag
//@ result r
//@ spec
//@|     ensures r == (writer_flags & FLAG_USE_V2_FORMAT_DEPRECATED != 0),
//@end

} // verus!
fn main() {}
