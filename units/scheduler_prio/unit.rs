// Unit `scheduler_prio` -- I/O scheduler admission control (C30, priority-bypass ingredient only):
// PrioritiesInFlight::{new,min_in_flight,push,remove}, IoTask ordering + num_bytes, IoQueueState::{can_deliver,next_task}
// from rust/lance-io/src/scheduler.rs.
#![feature(allocator_api)]
use vstd::prelude::*;
use vstd::multiset::Multiset;
use vstd::std_specs::cmp::{OrdSpec, PartialOrdSpec, PartialEqSpec};
use core::alloc::Allocator;
use core::cmp::Ordering;
use std::collections::BinaryHeap;
use std::ops::Range;
verus! {

// ASSUMPTION (listed): 64-bit target (PrioritiesInFlight::new computes `capacity as usize * 2`)
global size_of usize == 8;

// ---- assumed contracts of std (trusted, listed in the evidence)
pub open spec fn le_<T: Ord>(a: T, b: T) -> bool { a.cmp_spec(&b) != Ordering::Greater }
pub open spec fn lt_<T: Ord>(a: T, b: T) -> bool { a.cmp_spec(&b) == Ordering::Less }
pub open spec fn ge_<T: Ord>(a: T, b: T) -> bool { a.cmp_spec(&b) != Ordering::Less }
pub open spec fn sorted_<T: Ord>(s: Seq<T>) -> bool { forall|i: int, j: int| 0 <= i <= j < s.len() ==> le_(s[i], s[j]) }
pub open spec fn sorted(s: Seq<u128>) -> bool { forall|i: int, j: int| 0 <= i <= j < s.len() ==> s[i] <= s[j] }

pub assume_specification<T: Ord> [<[T]>::binary_search] (s: &[T], x: &T) -> (r: Result<usize, usize>)
    ensures
        T::obeys_cmp_spec() && sorted_(s@) ==> match r {
            Ok(i) => i < s@.len() && s@[i as int].cmp_spec(x) == Ordering::Equal,
            Err(i) => i <= s@.len() && (forall|j: int| 0 <= j < i ==> lt_(#[trigger] s@[j], *x))
                        && (forall|j: int| i <= j < s@.len() ==> lt_(*x, #[trigger] s@[j])),
        };

pub assume_specification<'a, T: Copy> [Option::<&'a T>::copied] (o: Option<&'a T>) -> (r: Option<T>)
    ensures o is None ==> r is None, o is Some ==> r == Some(*o->Some_0);

#[verifier::external_type_specification]
#[verifier::external_body]
#[verifier::reject_recursive_types(T)]
#[verifier::reject_recursive_types(A)]
pub struct ExBinaryHeap<T, A: Allocator>(BinaryHeap<T, A>);

/// ASSUMED contract of std::collections::BinaryHeap (a max-heap w.r.t. Ord): its content as a sequence whose
/// head is a greatest element; peek returns the head, pop removes and returns it.
pub uninterp spec fn heap_seq<T, A: Allocator>(h: &BinaryHeap<T, A>) -> Seq<T>;
pub assume_specification<T, A: Allocator> [BinaryHeap::<T, A>::peek] (h: &BinaryHeap<T, A>) -> (r: Option<&T>)
    ensures heap_seq(h).len() == 0 ==> r is None,
            heap_seq(h).len() > 0 ==> r == Some(&heap_seq(h)[0]);
#[verifier::external_body]
pub proof fn axiom_heap_head_is_greatest<T: Ord, A: Allocator>(h: &BinaryHeap<T, A>)
    ensures T::obeys_cmp_spec() ==> forall|i: int| 0 <= i < heap_seq(h).len() ==> ge_(heap_seq(h)[0], #[trigger] heap_seq(h)[i]),
{}
pub assume_specification<T: Ord, A: Allocator> [BinaryHeap::<T, A>::pop] (h: &mut BinaryHeap<T, A>) -> (r: Option<T>)
    ensures heap_seq(old(h)).len() == 0 ==> r is None && heap_seq(final(h)) == heap_seq(old(h)),
            heap_seq(old(h)).len() > 0 ==> r == Some(heap_seq(old(h))[0]) && heap_seq(final(h)) == heap_seq(old(h)).drop_first();

// ------------------------------------------------------------------ PrioritiesInFlight (real text)
//@extract rust/lance-io/src/scheduler.rs :: struct PrioritiesInFlight
//@end

impl PrioritiesInFlight {
    /// abstract view: the multiset of priorities of requests in flight
    pub closed spec fn bag(&self) -> Multiset<u128> { self.in_flight@.to_multiset() }
    /// representation invariant: kept sorted
    pub closed spec fn wf(&self) -> bool { sorted(self.in_flight@) }
    /// the most urgent (numerically smallest) priority in flight, u128::MAX when nothing is in flight
    pub closed spec fn min_spec(&self) -> u128 { if self.in_flight@.len() == 0 { u128::MAX } else { self.in_flight@[0] } }

//@extract rust/lance-io/src/scheduler.rs :: impl PrioritiesInFlight :: fn new
//@ name PrioritiesInFlight::new
//@ result r
//@ spec
//@|     ensures r.wf(), r.bag() =~= Multiset::<u128>::empty(),
//@ at body_start
//@|     proof { broadcast use vstd::seq_lib::group_to_multiset_ensures; }
//@end

//@extract rust/lance-io/src/scheduler.rs :: impl PrioritiesInFlight :: fn min_in_flight
//@ name PrioritiesInFlight::min_in_flight
//@ result r
//@ spec
//@|     requires self.wf(),
//@|     ensures r == self.min_spec(),
//@|             self.bag().len() == 0 ==> r == u128::MAX,
//@|             forall|x: u128| self.bag().count(x) > 0 ==> r <= x,
//@|             self.bag().len() > 0 ==> self.bag().count(r) > 0,
//@ at body_start
//@|     proof {
//@|         broadcast use vstd::seq_lib::group_to_multiset_ensures;
//@|         assert forall|x: u128| self.bag().count(x) > 0 implies (self.in_flight@.len() > 0 && self.in_flight@[0] <= x) by {
//@|             assert(self.in_flight@.contains(x));
//@|             let i = choose|i: int| 0 <= i < self.in_flight@.len() && self.in_flight@[i] == x;
//@|         }
//@|         if self.in_flight@.len() > 0 { assert(self.in_flight@.contains(self.in_flight@[0])); }
//@|     }
//@end

//@extract rust/lance-io/src/scheduler.rs :: impl PrioritiesInFlight :: fn push
//@ name PrioritiesInFlight::push
//@ spec
//@|     requires old(self).wf(),
//@|     ensures final(self).wf(), final(self).bag() == old(self).bag().insert(prio),
//@ at body_start
//@|     proof { broadcast use vstd::seq_lib::group_to_multiset_ensures; }
//@end

//@extract rust/lance-io/src/scheduler.rs :: impl PrioritiesInFlight :: fn remove
//@ name PrioritiesInFlight::remove
//@ spec
//@|     requires old(self).wf(),
//@|     ensures final(self).wf(), final(self).bag() == old(self).bag().remove(prio),
//@ at body_start
//@|     proof {
//@|         broadcast use vstd::seq_lib::group_to_multiset_ensures;
//@|         if self.bag().count(prio) == 0 { assert(self.bag().remove(prio) =~= self.bag()); }
//@|     }
//@end
}

// ------------------------------------------------------------------ IoTask
// SHIM (assumption, listed): IoTask restricted to the two fields the contracted functions read; the real struct
// also holds `reader: Arc<dyn Reader>` and `when_done: Box<dyn FnOnce(..)>`, which no contracted function touches.
pub struct IoTask { pub to_read: Range<u64>, pub priority: u128 }

impl Eq for IoTask {}

impl vstd::std_specs::cmp::PartialEqSpecImpl for IoTask {
    open spec fn obeys_eq_spec() -> bool { true }
    open spec fn eq_spec(&self, other: &Self) -> bool { self.priority == other.priority }
}
impl PartialEq for IoTask {
//@extract rust/lance-io/src/scheduler.rs :: impl PartialEq for IoTask :: fn eq
//@ name IoTask::eq
//@ result r
//@ spec
//@|     ensures r == (self.priority == other.priority),
//@end
}
impl vstd::std_specs::cmp::PartialOrdSpecImpl for IoTask {
    open spec fn obeys_partial_cmp_spec() -> bool { true }
    open spec fn partial_cmp_spec(&self, other: &Self) -> Option<Ordering> { Some(OrdSpec::cmp_spec(&other.priority, &self.priority)) }
}
impl PartialOrd for IoTask {
//@extract rust/lance-io/src/scheduler.rs :: impl PartialOrd for IoTask :: fn partial_cmp
//@ name IoTask::partial_cmp
//@ result r
//@ spec
//@|     ensures r == Some(OrdSpec::cmp_spec(&other.priority, &self.priority)),
//@end
}
// the pending queue is a max-heap: the heap order must be the INVERTED priority order so that its head is the
// numerically smallest (= most urgent) priority
impl vstd::std_specs::cmp::OrdSpecImpl for IoTask {
    open spec fn obeys_cmp_spec() -> bool { true }
    open spec fn cmp_spec(&self, other: &Self) -> Ordering { OrdSpec::cmp_spec(&other.priority, &self.priority) }
}
impl Ord for IoTask {
//@extract rust/lance-io/src/scheduler.rs :: impl Ord for IoTask :: fn cmp
//@ name IoTask::cmp
//@ result r
//@ spec
//@|     ensures r == OrdSpec::cmp_spec(&other.priority, &self.priority),
//@end
}

impl IoTask {
//@extract rust/lance-io/src/scheduler.rs :: impl IoTask :: fn num_bytes
//@ name IoTask::num_bytes
//@ result r
//@ spec
//@|     requires self.to_read.start <= self.to_read.end,
//@|     ensures r == self.to_read.end - self.to_read.start,
//@end
}

// ------------------------------------------------------------------ IoQueueState
// SHIM (assumption, listed): IoQueueState without `start: Instant` and `last_warn: AtomicU64` (only used by the
// rate-limited warning, which is external_body here and has no effect on the admission decision)
struct IoQueueState {
    iops_avail: u32,
    bytes_avail: i64,
    pending_requests: BinaryHeap<IoTask>,
    priorities_in_flight: PrioritiesInFlight,
    done_scheduling: bool,
}

impl IoQueueState {
    #[verifier::external_body]
    fn warn_if_needed(&self) { }

    spec fn top_is_most_urgent(&self) -> bool {
        forall|i: int| 0 <= i < heap_seq(&self.pending_requests).len() ==>
            heap_seq(&self.pending_requests)[0].priority <= #[trigger] heap_seq(&self.pending_requests)[i].priority
    }
    spec fn wf(&self) -> bool {
        &&& self.priorities_in_flight.wf()
        &&& forall|i: int| 0 <= i < heap_seq(&self.pending_requests).len() ==>
               (#[trigger] heap_seq(&self.pending_requests)[i]).to_read.start <= heap_seq(&self.pending_requests)[i].to_read.end
        // byte-budget bookkeeping stays inside i64: requests are < 2^62 bytes and the budget is > -2^62
        &&& self.bytes_avail > -0x4000_0000_0000_0000
        &&& forall|i: int| 0 <= i < heap_seq(&self.pending_requests).len() ==>
               (#[trigger] heap_seq(&self.pending_requests)[i]).to_read.end - heap_seq(&self.pending_requests)[i].to_read.start < 0x4000_0000_0000_0000
    }

//@extract rust/lance-io/src/scheduler.rs :: impl IoQueueState :: fn can_deliver
//@ name IoQueueState::can_deliver
//@ result r
//@ spec
//@|     requires self.priorities_in_flight.wf(), task.to_read.start <= task.to_read.end,
//@|     ensures
//@|         // never more concurrent iops than the capacity
//@|         self.iops_avail == 0 ==> !r,
//@|         // priority bypass: the most urgent request is never held back by the byte budget
//@|         self.iops_avail > 0 && (forall|x: u128| self.priorities_in_flight.bag().count(x) > 0 ==> task.priority <= x) ==> r,
//@|         // a request that fits the budget is admitted
//@|         self.iops_avail > 0 && ((task.to_read.end - task.to_read.start) as u64) as i64 <= self.bytes_avail ==> r,
//@|         // back-pressure: a less urgent request that does not fit is held back
//@|         r ==> self.iops_avail > 0 && (task.priority <= self.priorities_in_flight.min_spec()
//@|                  || ((task.to_read.end - task.to_read.start) as u64) as i64 <= self.bytes_avail),
//@end

//@extract rust/lance-io/src/scheduler.rs :: impl IoQueueState :: fn next_task
//@ name IoQueueState::next_task
//@ rules R1 R5
//@ result r
//@ spec
//@|     requires old(self).wf(),
//@|     ensures
//@|         final(self).priorities_in_flight.wf(),
//@|         // the task handed out is the most urgent pending one, and the books are debited by exactly that task
//@|         r is Some ==> heap_seq(&old(self).pending_requests).len() > 0 && r->Some_0 == heap_seq(&old(self).pending_requests)[0]
//@|             && old(self).top_is_most_urgent()
//@|             && heap_seq(&final(self).pending_requests) == heap_seq(&old(self).pending_requests).drop_first()
//@|             && old(self).iops_avail > 0 && final(self).iops_avail == old(self).iops_avail - 1
//@|             && final(self).bytes_avail == old(self).bytes_avail - (r->Some_0.to_read.end - r->Some_0.to_read.start)
//@|             && final(self).priorities_in_flight.bag() == old(self).priorities_in_flight.bag().insert(r->Some_0.priority),
//@|         r is None ==> final(self).iops_avail == old(self).iops_avail && final(self).bytes_avail == old(self).bytes_avail
//@|             && final(self).priorities_in_flight.bag() == old(self).priorities_in_flight.bag()
//@|             && heap_seq(&final(self).pending_requests) == heap_seq(&old(self).pending_requests),
//@|         // priority bypass (the no-deadlock ingredient): with an iop available, a pending task at least as urgent as
//@|         // everything in flight is ALWAYS issued, whatever the byte budget
//@|         (heap_seq(&old(self).pending_requests).len() > 0 && old(self).iops_avail > 0
//@|            && (forall|x: u128| old(self).priorities_in_flight.bag().count(x) > 0 ==> heap_seq(&old(self).pending_requests)[0].priority <= x))
//@|            ==> r is Some,
//@|         // a task that fits the byte budget is issued too
//@|         (heap_seq(&old(self).pending_requests).len() > 0 && old(self).iops_avail > 0
//@|            && heap_seq(&old(self).pending_requests)[0].to_read.end - heap_seq(&old(self).pending_requests)[0].to_read.start <= old(self).bytes_avail)
//@|            ==> r is Some,
//@|         old(self).iops_avail == 0 ==> r is None,
//@ at body_start
//@|     proof { axiom_heap_head_is_greatest(&self.pending_requests); }
//@end
}

/// n copies of p removed from a multiset
pub open spec fn remove_n(b: Multiset<u128>, p: u128, n: nat) -> Multiset<u128>
    decreases n
{
    if n == 0 { b } else { remove_n(b, p, (n - 1) as nat).remove(p) }
}

// R7 slice of IoQueue::on_bytes_consumed: the two statements executed under the state mutex (the lock / drop / notify
// around them are dropped; `state` is the locked IoQueueState).  A consumed request gives back its bytes and takes its
// priority out of the in-flight list ONCE PER IOP it had been split into -- otherwise a stale low priority stays in the
// list for ever and the priority bypass of can_deliver is lost.
//@extract rust/lance-io/src/scheduler.rs :: impl IoQueue :: fn on_bytes_consumed :: stmts#2..3
//@ name on_bytes_consumed_locked
//@ loopfree_fallback
//@ wrap
//@| fn on_bytes_consumed_locked(state: &mut IoQueueState, bytes: u64, priority: u128, num_reqs: usize)
//@ spec
//@|     requires old(state).priorities_in_flight.wf(), bytes < 0x4000_0000_0000_0000, old(state).bytes_avail < 0x4000_0000_0000_0000,
//@|     ensures final(state).priorities_in_flight.wf(),
//@|         final(state).bytes_avail == old(state).bytes_avail + bytes,
//@|         final(state).iops_avail == old(state).iops_avail,
//@|         final(state).priorities_in_flight.bag() == remove_n(old(state).priorities_in_flight.bag(), priority, num_reqs as nat),
//@ at loop:1:iter
//@| it
//@ loop 1
//@|     invariant state.priorities_in_flight.wf(), state.iops_avail == old(state).iops_avail,
//@|         state.bytes_avail == old(state).bytes_avail + bytes,
//@|         state.priorities_in_flight.bag() == remove_n(old(state).priorities_in_flight.bag(), priority, it.index@ as nat),
//@end

/// history lemma: pushing the priorities of issued tasks and removing those of completed ones keeps the multiset
/// equal to issued-minus-completed, so `min_in_flight` is always the most urgent request still in flight
pub proof fn lemma_bag_push_remove(b: Multiset<u128>, p: u128)
    ensures b.insert(p).remove(p) =~= b, b.insert(p).count(p) == b.count(p) + 1,
{}

} // verus!
fn main() {}
