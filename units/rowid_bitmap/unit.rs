// Unit `rowid_bitmap` -- the bitmap that row id segments use for holes (C34).
use vstd::prelude::*;
verus! {

pub assume_specification [usize::div_ceil] (a: usize, b: usize) -> (r: usize)
    requires b != 0
    ensures r as int == (a as int + b as int - 1) / (b as int);

//@extract rust/lance-table/src/rowids/bitmap.rs :: struct Bitmap
//@end
//@extract rust/lance-table/src/rowids/bitmap.rs :: struct BitmapSlice
//@end

impl<'a> BitmapSlice<'a> {
    pub closed spec fn src(&self) -> Bitmap { *self.bitmap }
    pub closed spec fn start_(&self) -> int { self.start as int }
    pub closed spec fn len_(&self) -> int { self.len as int }
}

pub open spec fn byte_bit(b: u8, k: int) -> bool { b & (1u8 << (k as u8)) != 0 }

impl Bitmap {
    /// bit i of the backing bytes (LSB first)
    pub open spec fn bit(&self, i: int) -> bool { byte_bit(self.data@[i / 8], i % 8) }
    pub open spec fn nbytes(&self) -> int { self.data@.len() as int }
    /// representation invariant: exactly ceil(len/8) bytes
    pub open spec fn wf(&self) -> bool { self.data@.len() == (self.len as int + 7) / 8 }
    /// padding bits past `len` are zero (what count_zeros and == rely on)
    pub open spec fn padding_clear(&self) -> bool {
        forall|i: int| self.len as int <= i < 8 * self.nbytes() ==> !#[trigger] self.bit(i)
    }

//@extract rust/lance-table/src/rowids/bitmap.rs :: impl Bitmap :: fn new_empty
//@ name Bitmap::new_empty
//@ result r
//@ spec
//@|     ensures r.len == len, r.wf(), forall|i: int| 0 <= i < 8 * r.nbytes() ==> !#[trigger] r.bit(i),
//@ at stmt:2:before
//@|     proof {
//@|         assert forall|i: int| 0 <= i < 8 * (data@.len() as int) implies !byte_bit(#[trigger] data@[i / 8], i % 8) by {
//@|             let k = (i % 8) as u8;
//@|             assert(0u8 & (1u8 << k) == 0) by (bit_vector);
//@|         }
//@|     }
//@end

//@extract rust/lance-table/src/rowids/bitmap.rs :: impl Bitmap :: fn new_full
//@ name Bitmap::new_full
//@ result r
//@ spec
//@|     ensures r.len == len, r.wf(), r.padding_clear(),
//@|             forall|i: int| 0 <= i < len as int ==> #[trigger] r.bit(i),
//@ at stmt:2:before
//@|     let ghost d0 = data@;
//@|     proof { lemma_full_byte(); }
//@ at loop:1:before
//@|     proof { assert(*last_byte == 0xffu8); }
//@ loop 1
//@|     invariant
//@|         0 < remainder < 8, bits_to_clear == 8 - remainder,
//@|         forall|m: int| 0 <= m < 8 - offset_from_end as int ==> byte_bit(*last_byte, m),
//@|         forall|m: int| 8 - offset_from_end as int <= m < 8 ==> !byte_bit(*last_byte, m),
//@ at loop:1:body_start
//@|     let ghost prev = *last_byte;
//@ at loop:1:body_end
//@|     proof {
//@|         lemma_clear_bit(prev, i as u8);
//@|         assert((1u8 << (i as u8)) == (1u8 << i)) by (bit_vector) requires i < 8;
//@|         assert(*last_byte == prev & !(1u8 << (i as u8)));
//@|         assert forall|m: int| 0 <= m < i as int implies byte_bit(*last_byte, m) by { assert(byte_bit(prev, m)); }
//@|         assert forall|m: int| i as int <= m < 8 implies !byte_bit(*last_byte, m) by { if m != i { assert(!byte_bit(prev, m)); } }
//@|     }
//@ at stmt:4:before
//@|     proof {
//@|         let n = data@.len() as int;
//@|         assert(n == (len as int + 7) / 8);
//@|         assert forall|i: int| 0 <= i < len as int implies #[trigger] byte_bit(data@[i / 8], i % 8) by {
//@|             if remainder != 0 && i / 8 == n - 1 { assert(i % 8 < remainder as int); } else { assert(data@[i / 8] == 0xffu8); }
//@|         }
//@|         assert forall|i: int| len as int <= i < 8 * n implies !#[trigger] byte_bit(data@[i / 8], i % 8) by {
//@|             assert(remainder != 0 && i / 8 == n - 1 && i % 8 >= remainder as int);
//@|         }
//@|     }
//@end

//@extract rust/lance-table/src/rowids/bitmap.rs :: impl Bitmap :: fn set
//@ name Bitmap::set
//@ spec
//@|     requires (i as int) / 8 < old(self).nbytes(),
//@|     ensures final(self).len == old(self).len, final(self).nbytes() == old(self).nbytes(),
//@|             final(self).bit(i as int),
//@|             forall|j: int| 0 <= j < 8 * old(self).nbytes() && j != i ==> final(self).bit(j) == old(self).bit(j),
//@ at body_end
//@|     proof { lemma_set_bit(old(self).data@[(i as int) / 8], (i % 8) as u8); }
//@end

//@extract rust/lance-table/src/rowids/bitmap.rs :: impl Bitmap :: fn clear
//@ name Bitmap::clear
//@ spec
//@|     requires (i as int) / 8 < old(self).nbytes(),
//@|     ensures final(self).len == old(self).len, final(self).nbytes() == old(self).nbytes(),
//@|             !final(self).bit(i as int),
//@|             forall|j: int| 0 <= j < 8 * old(self).nbytes() && j != i ==> final(self).bit(j) == old(self).bit(j),
//@ at body_end
//@|     proof { lemma_clear_bit(old(self).data@[(i as int) / 8], (i % 8) as u8); }
//@end

//@extract rust/lance-table/src/rowids/bitmap.rs :: impl Bitmap :: fn get
//@ name Bitmap::get
//@ result r
//@ spec
//@|     requires (i as int) / 8 < self.nbytes(),
//@|     ensures r == self.bit(i as int),
//@end

//@extract rust/lance-table/src/rowids/bitmap.rs :: impl Bitmap :: fn len
//@ name Bitmap::len
//@ result r
//@ spec
//@|     ensures r == self.len,
//@end

//@extract rust/lance-table/src/rowids/bitmap.rs :: impl Bitmap :: fn slice
//@ name Bitmap::slice
//@ result r
//@ spec
//@|     ensures r.src() == *self, r.start_() == start as int, r.len_() == len as int,
//@end
}

// `impl From<BitmapSlice<'_>> for Bitmap :: fn from` -- a trait-impl method cannot carry `requires` in Verus, so its
// body (all three statements, verbatim) is lifted into a free fn with the same parameter (R7; `Self` => `Bitmap`).
//@extract rust/lance-table/src/rowids/bitmap.rs :: impl From<BitmapSlice<'_>> for Bitmap :: fn from :: stmts#1..3
//@ name bitmap_from_slice
//@ subst Self => Bitmap
//@ wrap
//@| pub fn bitmap_from_slice(slice: BitmapSlice) -> (r: Bitmap)
//@ spec
//@|     requires slice.src().wf(), slice.start_() + slice.len_() <= slice.src().len as int,
//@|     ensures r.len as int == slice.len_(), r.wf(),
//@|             forall|i: int| 0 <= i < slice.len_() ==> #[trigger] r.bit(i) == slice.src().bit(slice.start_() + i),
//@|             forall|i: int| slice.len_() <= i < 8 * r.nbytes() ==> !#[trigger] r.bit(i),
//@ loop 1
//@|     invariant
//@|         slice.src().wf(), slice.start_() + slice.len_() <= slice.src().len as int,
//@|         bitmap.len as int == slice.len_(), bitmap.wf(),
//@|         forall|j: int| 0 <= j < i as int ==> #[trigger] bitmap.bit(j) == slice.src().bit(slice.start_() + j),
//@|         forall|j: int| i as int <= j < 8 * bitmap.nbytes() ==> !#[trigger] bitmap.bit(j),
//@end

pub proof fn lemma_full_byte()
    ensures forall|m: int| 0 <= m < 8 ==> #[trigger] byte_bit(0xffu8, m),
{
    assert forall|m: int| 0 <= m < 8 implies #[trigger] byte_bit(0xffu8, m) by {
        let k = m as u8;
        assert(k < 8 ==> 0xffu8 & (1u8 << k) != 0) by (bit_vector);
    }
}

pub proof fn lemma_set_bit(b: u8, k: u8)
    requires k < 8,
    ensures
        byte_bit(b | (1u8 << k), k as int),
        forall|m: int| 0 <= m < 8 && m != k ==> byte_bit(b | (1u8 << k), m) == byte_bit(b, m),
{
    assert(k < 8 ==> (b | (1u8 << k)) & (1u8 << k) != 0) by (bit_vector);
    assert forall|m: int| 0 <= m < 8 && m != k implies byte_bit(b | (1u8 << k), m) == byte_bit(b, m) by {
        let mm = m as u8;
        assert(k < 8 && mm < 8 && mm != k ==> (((b | (1u8 << k)) & (1u8 << mm)) != 0) == ((b & (1u8 << mm)) != 0)) by (bit_vector);
    }
}

pub proof fn lemma_clear_bit(b: u8, k: u8)
    requires k < 8,
    ensures
        !byte_bit(b & !(1u8 << k), k as int),
        forall|m: int| 0 <= m < 8 && m != k ==> byte_bit(b & !(1u8 << k), m) == byte_bit(b, m),
{
    assert(k < 8 ==> (b & !(1u8 << k)) & (1u8 << k) == 0) by (bit_vector);
    assert forall|m: int| 0 <= m < 8 && m != k implies byte_bit(b & !(1u8 << k), m) == byte_bit(b, m) by {
        let mm = m as u8;
        assert(k < 8 && mm < 8 && mm != k ==> (((b & !(1u8 << k)) & (1u8 << mm)) != 0) == ((b & (1u8 << mm)) != 0)) by (bit_vector);
    }
}

} // verus!
fn main() {}
