// Unit `index_coverage` -- which fragments an index expression's answer may be trusted for (C19: "after appends not yet
// indexed ... index optimisation"): the And / Or / Not arms of ScalarIndexExec::fragments_covered_by_index_query
// (rust/lance/src/io/exec/scalar_index.rs), sliced (R7) out of the async recursive fn: the recursive calls
// `Self::fragments_covered_by_index_query(x, dataset).await?` are replaced by parameters holding their results.
// Context (assumption): roaring::RoaringBitmap is abstract with view(): Set<u32>; `&` and `|` are assumed to be
// intersection and union.
use vstd::prelude::*;
use vstd::std_specs::ops::*;
verus! {

#[verifier::external_body]
pub struct RoaringBitmap { _p: core::marker::PhantomData<u32> }
impl View for RoaringBitmap { type V = Set<u32>; uninterp spec fn view(&self) -> Set<u32>; }
impl BitAndSpecImpl<RoaringBitmap> for RoaringBitmap {
    open spec fn obeys_bitand_spec() -> bool { false }
    open spec fn bitand_req(self, rhs: RoaringBitmap) -> bool { true }
    open spec fn bitand_spec(self, rhs: RoaringBitmap) -> RoaringBitmap { arbitrary() }
}
impl std::ops::BitAnd<RoaringBitmap> for RoaringBitmap {
    type Output = RoaringBitmap;
    #[verifier::external_body]
    fn bitand(self, rhs: RoaringBitmap) -> (r: RoaringBitmap) ensures r@ == self@.intersect(rhs@) { unimplemented!() }
}
impl BitOrSpecImpl<RoaringBitmap> for RoaringBitmap {
    open spec fn obeys_bitor_spec() -> bool { false }
    open spec fn bitor_req(self, rhs: RoaringBitmap) -> bool { true }
    open spec fn bitor_spec(self, rhs: RoaringBitmap) -> RoaringBitmap { arbitrary() }
}
impl std::ops::BitOr<RoaringBitmap> for RoaringBitmap {
    type Output = RoaringBitmap;
    #[verifier::external_body]
    fn bitor(self, rhs: RoaringBitmap) -> (r: RoaringBitmap) ensures r@ == self@.union(rhs@) { unimplemented!() }
}
pub struct Error;
pub type Result<T> = std::result::Result<T, Error>;

// Contract from the property: an answer combining two sub-answers is exact only for fragments that BOTH indices have
// seen -- for AND and for OR alike (a fragment only one index covers may hold rows that satisfy the other disjunct);
// negation does not change coverage.

//@extract rust/lance/src/io/exec/scalar_index.rs :: impl ScalarIndexExec :: fn fragments_covered_by_index_query :: arm "ScalarIndexExpr::And"
//@ name coverage_and
//@ subst Self::fragments_covered_by_index_query(lhs, dataset).await? => lhs_cov
//@ subst Self::fragments_covered_by_index_query(rhs, dataset).await? => rhs_cov
//@ wrap
//@| pub fn coverage_and(lhs_cov: RoaringBitmap, rhs_cov: RoaringBitmap) -> (r: Result<RoaringBitmap>)
//@ spec
//@|     ensures r is Ok, r->Ok_0@ == lhs_cov@.intersect(rhs_cov@),
//@end

//@extract rust/lance/src/io/exec/scalar_index.rs :: impl ScalarIndexExec :: fn fragments_covered_by_index_query :: arm "ScalarIndexExpr::Or"
//@ name coverage_or
//@ subst Self::fragments_covered_by_index_query(lhs, dataset).await? => lhs_cov
//@ subst Self::fragments_covered_by_index_query(rhs, dataset).await? => rhs_cov
//@ wrap
//@| pub fn coverage_or(lhs_cov: RoaringBitmap, rhs_cov: RoaringBitmap) -> (r: Result<RoaringBitmap>)
//@ spec
//@|     ensures r is Ok, r->Ok_0@ == lhs_cov@.intersect(rhs_cov@),
//@end

//@extract rust/lance/src/io/exec/scalar_index.rs :: impl ScalarIndexExec :: fn fragments_covered_by_index_query :: arm "ScalarIndexExpr::Not"
//@ name coverage_not
//@ subst Self::fragments_covered_by_index_query(expr, dataset).await => Ok(inner_cov)
//@ wrap
//@| pub fn coverage_not(inner_cov: RoaringBitmap) -> (r: Result<RoaringBitmap>)
//@ spec
//@|     ensures r is Ok, r->Ok_0@ == inner_cov@,
//@end

/// if every leaf's coverage contains fragment f exactly when that index has seen f, then the coverage of any
/// expression contains f exactly when EVERY index in it has seen f (induction over the three contracts above)
pub proof fn lemma_coverage_is_intersection_of_leaves(a: Set<u32>, b: Set<u32>, c: Set<u32>, f: u32)
    ensures a.intersect(b).intersect(c).contains(f) == (a.contains(f) && b.contains(f) && c.contains(f)),
{}

} // verus!
fn main() {}
