// Unit `indexed_expr` -- how the planner splits a filter into (index query, refine expression) and recombines the
// parts under NOT / AND / OR: IndexedExpression::{maybe_not, and, maybe_or, refine}, ScalarIndexExpr::needs_recheck,
// enum ScalarIndexExpr, struct IndexedExpression from rust/lance-index/src/scalar/expression.rs  (C19).
//
// POINTWISE interpretation (assumption, listed): `Expr` and `ScalarIndexSearch` are shims that stand for the truth
// value of the expression / the answer of the index on ONE arbitrary row.  A contract that holds for every valuation
// is a statement about every row of every table.
use vstd::prelude::*;
verus! {

/// shim of datafusion_expr::Expr: its truth value on the row under consideration
pub enum Expr { Val(bool), Not(Box<Expr>) }
impl Expr {
    pub open spec fn ev(&self) -> bool decreases self { match self { Expr::Val(b) => *b, Expr::Not(e) => !e.ev() } }
    /// ASSUMED contract of datafusion's Expr::and
    #[verifier::external_body]
    pub fn and(self, other: Expr) -> (r: Expr) ensures r.ev() == (self.ev() && other.ev()) { unimplemented!() }
}
/// shim of ScalarIndexSearch: `truth` = the row satisfies the leaf predicate, `cand` = the index returns the row for it
pub struct ScalarIndexSearch { pub truth: bool, pub cand: bool, pub needs_recheck: bool }

//@extract rust/lance-index/src/scalar/expression.rs :: enum ScalarIndexExpr
//@end

//@extract rust/lance-index/src/scalar/expression.rs :: struct IndexedExpression
//@end

impl ScalarIndexExpr {
    /// candidate rows the evaluation of the index expression yields (the set algebra of C21, pointwise)
    pub open spec fn cand(&self) -> bool decreases self {
        match self { Self::Not(x) => !x.cand(), Self::And(a, b) => a.cand() && b.cand(), Self::Or(a, b) => a.cand() || b.cand(), Self::Query(s) => s.cand }
    }
    pub open spec fn recheck(&self) -> bool decreases self {
        match self { Self::Not(x) => x.recheck(), Self::And(a, b) => a.recheck() || b.recheck(), Self::Or(a, b) => a.recheck() || b.recheck(), Self::Query(s) => s.needs_recheck }
    }

//@extract rust/lance-index/src/scalar/expression.rs :: impl ScalarIndexExpr :: fn needs_recheck
//@ name ScalarIndexExpr::needs_recheck
//@ result r
//@ spec
//@|     ensures r == self.recheck()
//@|     decreases self
//@end
}

/// What the scan returns for a planned filter: the candidates of the index part AND the refine expression; when the
/// index part needs a recheck the scan re-applies the whole original filter (truth value t) on top.
/// The plan is CORRECT for a filter with truth value t iff that equals t -- on every row.
pub open spec fn correct(ie: IndexedExpression, t: bool) -> bool {
    let c = match ie.scalar_query { Some(q) => q.cand(), None => true };
    let r = match ie.refine_expr { Some(e) => e.ev(), None => true };
    let rc = match ie.scalar_query { Some(q) => q.recheck(), None => false };
    if rc { t ==> (c && r) } else { (c && r) == t }
}

impl IndexedExpression {
//@extract rust/lance-index/src/scalar/expression.rs :: impl IndexedExpression :: fn maybe_not
//@ name IndexedExpression::maybe_not
//@ result r
//@ spec
//@|     requires self.scalar_query is Some || self.refine_expr is Some,
//@|     ensures forall|t: bool| #[trigger] correct(self, t) && r is Some ==> correct(r->Some_0, !t),
//@|             // an at-most (inexact) index answer is never negated
//@|             r is Some && self.scalar_query is Some ==> !self.scalar_query->Some_0.recheck(),
//@end

//@extract rust/lance-index/src/scalar/expression.rs :: impl IndexedExpression :: fn and
//@ name IndexedExpression::and
//@ result r
//@ spec
//@|     ensures forall|ta: bool, tb: bool| #[trigger] correct(self, ta) && #[trigger] correct(other, tb) ==> correct(r, ta && tb),
//@end

//@extract rust/lance-index/src/scalar/expression.rs :: impl IndexedExpression :: fn maybe_or
//@ name IndexedExpression::maybe_or
//@ result r
//@ spec
//@|     ensures forall|ta: bool, tb: bool| #[trigger] correct(self, ta) && #[trigger] correct(other, tb) && r is Some ==> correct(r->Some_0, ta || tb),
//@end

//@extract rust/lance-index/src/scalar/expression.rs :: impl IndexedExpression :: fn refine
//@ name IndexedExpression::refine
//@ result r
//@ spec
//@|     ensures forall|t: bool| #[trigger] correct(self, t) ==> correct(r, t && expr.ev()),
//@end
}

/// leaves as the index search produces them: exact (cand == truth) or at-most (truth ==> cand) are correct plans
pub proof fn lemma_leaf_is_a_correct_plan(s: ScalarIndexSearch)
    requires if s.needs_recheck { s.truth ==> s.cand } else { s.cand == s.truth },
    ensures correct(IndexedExpression { scalar_query: Some(ScalarIndexExpr::Query(s)), refine_expr: None }, s.truth),
{}

} // verus!
fn main() {}
