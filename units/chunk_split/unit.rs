// Unit `chunk_split` -- C30, byte-exactness ingredient of `LanceEncodingsIo::submit_request` (rust/lance-file/src/io.rs):
// the splitting of one requested range into read-chunk-sized pieces.  The verified text is the BODY of the
// `for (idx, range) in ranges.iter().enumerate()` loop, cut verbatim (R7 `loopbody#1`) and wrapped as a fn whose
// parameters are the loop variables and the two output vectors; only `self.read_chunk_size` -> `read_chunk_size`.
// Dropped: the loop header (`iter().enumerate()`: iterator adapters are outside Verus' subset), the call of
// FileScheduler::submit_request and the reassembly in the `async move` block (closures, Bytes).
use vstd::prelude::*;
use std::ops::Range;
verus! {

// ---- assumed contracts of std (trusted, listed in the evidence)
pub assume_specification [u64::div_ceil] (a: u64, b: u64) -> (r: u64)
    requires b > 0,
    ensures r as int == (a as int + b as int - 1) / (b as int), a > 0 ==> r >= 1;

pub assume_specification<Idx: Clone> [<Range<Idx> as Clone>::clone] (x: &Range<Idx>) -> (r: Range<Idx>)
    ensures call_ensures(Idx::clone, (&x.start,), r.start), call_ensures(Idx::clone, (&x.end,), r.end);

// u64 helpers the splitting arithmetic may plausibly start to use (not used on the pinned tree); specified so that such
// a change is DECIDED instead of ending as "unsupported" (exit 2)
pub assume_specification [u64::next_multiple_of] (a: u64, b: u64) -> (r: u64)
    requires b > 0, a + b <= u64::MAX,
    ensures r >= a, r < a + b, r as int % b as int == 0;

// every file-level constant of io.rs (none on the pinned tree), so that code that starts to use one still assembles
//@consts rust/lance-file/src/io.rs :: [A-Z][A-Z0-9_]* :: optional

/// `s` is a gap-free, overlap-free, in-order cover of the byte range lo..hi: reading the pieces and concatenating them
/// in order yields exactly the bytes lo..hi
pub open spec fn tiles(s: Seq<Range<u64>>, lo: u64, hi: u64) -> bool {
    s.len() >= 1 && s[0].start == lo && s[s.len() - 1].end == hi
    && (forall|j: int| 0 <= j < s.len() ==> (#[trigger] s[j]).start <= s[j].end)
    && (forall|j: int| 0 <= j < s.len() - 1 ==> (#[trigger] s[j]).end == s[j + 1].start)
}

/// total number of bytes of a piece list
pub open spec fn total_len(s: Seq<Range<u64>>) -> int
    decreases s.len()
{
    if s.len() == 0 { 0 } else { total_len(s.drop_last()) + (s.last().end - s.last().start) }
}

/// a tiling has exactly hi - lo bytes (no byte lost, none read twice)
pub proof fn lemma_tiles_total(s: Seq<Range<u64>>, lo: u64, hi: u64)
    requires tiles(s, lo, hi),
    ensures total_len(s) == hi - lo,
    decreases s.len()
{
    if s.len() == 1 {
        assert(s.drop_last().len() == 0);
        assert(total_len(s.drop_last()) == 0);
    } else {
        let p = s.drop_last();
        assert(p[p.len() - 1] == s[s.len() - 2]);
        assert(p[0] == s[0]);
        assert forall|j: int| 0 <= j < p.len() implies (#[trigger] p[j]).start <= p[j].end by { assert(p[j] == s[j]); }
        assert forall|j: int| 0 <= j < p.len() - 1 implies (#[trigger] p[j]).end == p[j + 1].start by {
            assert(p[j] == s[j]); assert(p[j + 1] == s[j + 1]);
        }
        assert(s[s.len() - 2].end == s[s.len() - 2 + 1].start);
        lemma_tiles_total(p, lo, s.last().start);
    }
}

/// the fast path of the reassembly (`split_results.len() == ranges.len()`) is sound: a one-piece tiling is the range itself
pub proof fn lemma_single_piece(s: Seq<Range<u64>>, lo: u64, hi: u64)
    requires tiles(s, lo, hi), s.len() == 1,
    ensures s[0].start == lo, s[0].end == hi,
{}

proof fn lemma_chunks(size: int, rcs: int, n: int, cs: int)
    requires 0 < rcs <= size, n == (size + rcs - 1) / rcs, cs == size / n,
    ensures 1 <= n <= size, 1 <= cs, cs * n <= size,
{
    assert(1 <= n <= size && 1 <= cs && cs * n <= size) by(nonlinear_arith)
        requires 0 < rcs <= size, n == (size + rcs - 1) / rcs, cs == size / n;
}

proof fn lemma_mul_le(i: int, n: int, cs: int, size: int)
    requires 0 <= i < n, 0 <= cs, cs * n <= size,
    ensures 0 <= i * cs, (i + 1) * cs <= size, (i + 1) * cs == i * cs + cs,
{
    assert(0 <= i * cs && (i + 1) * cs <= size && (i + 1) * cs == i * cs + cs) by(nonlinear_arith)
        requires 0 <= i < n, 0 <= cs, cs * n <= size;
}

//@extract rust/lance-file/src/io.rs :: impl EncodingsIo for LanceEncodingsIo :: fn submit_request :: loopbody#1
//@ name split_one_range
//@ subst self.read_chunk_size => read_chunk_size
//@ wrap
//@| fn split_one_range(range: &Range<u64>, idx: usize, read_chunk_size: u64, split_ranges: &mut Vec<Range<u64>>, split_indices: &mut Vec<usize>)
//@ spec
//@|     requires range.start <= range.end, read_chunk_size > 0,
//@|     ensures
//@|         final(split_ranges)@.len() > old(split_ranges)@.len(),
//@|         final(split_ranges)@.subrange(0, old(split_ranges)@.len() as int) == old(split_ranges)@,
//@|         tiles(final(split_ranges)@.subrange(old(split_ranges)@.len() as int, final(split_ranges)@.len() as int), range.start, range.end),
//@|         final(split_indices)@.len() - old(split_indices)@.len() == final(split_ranges)@.len() - old(split_ranges)@.len(),
//@|         final(split_indices)@.subrange(0, old(split_indices)@.len() as int) == old(split_indices)@,
//@|         forall|j: int| old(split_indices)@.len() <= j < final(split_indices)@.len() ==> final(split_indices)@[j] == idx,
//@ at loop:1:before
//@|     proof { lemma_chunks(range_size as int, read_chunk_size as int, num_chunks as int, chunk_size as int); }
//@ loop 1
//@|     invariant
//@|         1 <= num_chunks, 1 <= chunk_size, chunk_size * num_chunks <= range_size,
//@|         range_size == range.end - range.start, range.start <= range.end,
//@|         split_ranges@.len() == old(split_ranges)@.len() + i, split_indices@.len() == old(split_indices)@.len() + i,
//@|         split_ranges@.subrange(0, old(split_ranges)@.len() as int) == old(split_ranges)@,
//@|         split_indices@.subrange(0, old(split_indices)@.len() as int) == old(split_indices)@,
//@|         forall|j: int| old(split_indices)@.len() <= j < old(split_indices)@.len() + i ==> split_indices@[j] == idx,
//@|         forall|j: int| 0 <= j < i ==> (#[trigger] split_ranges@[old(split_ranges)@.len() + j]).start == range.start + j * chunk_size
//@|             && split_ranges@[old(split_ranges)@.len() + j].end == (if j == num_chunks - 1 { range.end as int } else { range.start + (j + 1) * chunk_size }),
//@ at loop:1:body_start
//@|     proof { lemma_mul_le(i as int, num_chunks as int, chunk_size as int, range_size as int); }
//@ at loop:1:after
//@|     proof {
//@|         let n0 = old(split_ranges)@.len() as int;
//@|         let s = split_ranges@.subrange(n0, split_ranges@.len() as int);
//@|         assert(s.len() == num_chunks);
//@|         assert forall|j: int| 0 <= j < s.len() implies (#[trigger] s[j]).start <= s[j].end by {
//@|             assert(s[j] == split_ranges@[n0 + j]);
//@|             lemma_mul_le(j, num_chunks as int, chunk_size as int, range_size as int);
//@|         }
//@|         assert forall|j: int| 0 <= j < s.len() - 1 implies (#[trigger] s[j]).end == s[j + 1].start by {
//@|             assert(s[j] == split_ranges@[n0 + j]);
//@|             assert(s[j + 1] == split_ranges@[n0 + (j + 1)]);
//@|         }
//@|         assert(s[0] == split_ranges@[n0 + 0]);
//@|         assert(s[s.len() - 1] == split_ranges@[n0 + (num_chunks - 1)]);
//@|     }
//@ at body_end
//@|     proof {
//@|         let n0 = old(split_ranges)@.len() as int;
//@|         let s = split_ranges@.subrange(n0, split_ranges@.len() as int);
//@|         assert(s[0] == split_ranges@[n0]);
//@|     }
//@end

} // verus!
fn main() {}
