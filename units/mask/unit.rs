// Unit `mask` -- RowIdMask algebra + index-result combination tables.
// Context (assumptions): RowIdTreeMap is abstract with view(): Set<u64>; its operators are
// assumed to be set union / intersection / difference (audited by execution in replay/, not proved).
use vstd::prelude::*;
use vstd::std_specs::ops::*;
verus! {

#[verifier::external_body]
pub struct RowIdTreeMap { _p: core::marker::PhantomData<u64> }
impl View for RowIdTreeMap { type V = Set<u64>; uninterp spec fn view(&self) -> Set<u64>; }

impl BitOrSpecImpl<RowIdTreeMap> for RowIdTreeMap {
    open spec fn obeys_bitor_spec() -> bool { false }
    open spec fn bitor_req(self, rhs: RowIdTreeMap) -> bool { true }
    open spec fn bitor_spec(self, rhs: RowIdTreeMap) -> RowIdTreeMap { arbitrary() }
}
impl std::ops::BitOr<RowIdTreeMap> for RowIdTreeMap {
    type Output = RowIdTreeMap;
    #[verifier::external_body]
    fn bitor(self, rhs: RowIdTreeMap) -> (r: RowIdTreeMap) ensures r@ == self@.union(rhs@) { unimplemented!() }
}
impl BitAndSpecImpl<RowIdTreeMap> for RowIdTreeMap {
    open spec fn obeys_bitand_spec() -> bool { false }
    open spec fn bitand_req(self, rhs: RowIdTreeMap) -> bool { true }
    open spec fn bitand_spec(self, rhs: RowIdTreeMap) -> RowIdTreeMap { arbitrary() }
}
impl std::ops::BitAnd<RowIdTreeMap> for RowIdTreeMap {
    type Output = RowIdTreeMap;
    #[verifier::external_body]
    fn bitand(self, rhs: RowIdTreeMap) -> (r: RowIdTreeMap) ensures r@ == self@.intersect(rhs@) { unimplemented!() }
}
impl SubAssignSpecImpl<&RowIdTreeMap> for RowIdTreeMap {
    open spec fn obeys_sub_assign_spec() -> bool { false }
    open spec fn sub_assign_req(&self, rhs: &RowIdTreeMap) -> bool { true }
    open spec fn sub_assign_spec(&self, rhs: &RowIdTreeMap) -> &RowIdTreeMap { arbitrary() }
}
impl std::ops::SubAssign<&RowIdTreeMap> for RowIdTreeMap {
    #[verifier::external_body]
    fn sub_assign(&mut self, rhs: &RowIdTreeMap) ensures final(self)@ == old(self)@.difference(rhs@) { unimplemented!() }
}
impl RowIdTreeMap {
    #[verifier::external_body]
    pub fn contains(&self, value: u64) -> (r: bool) ensures r == self@.contains(value) { unimplemented!() }
    #[verifier::external_body]
    pub fn new() -> (r: Self) ensures r@ == Set::<u64>::empty() { unimplemented!() }
    #[verifier::external_body]
    pub fn is_empty(&self) -> (r: bool) ensures r ==> self@ == Set::<u64>::empty() { unimplemented!() }
}

//@extract rust/lance-core/src/utils/mask.rs :: struct RowIdMask
//@end

impl RowIdMask {
    /// the set of row ids a mask selects (from the struct's documentation and the property statement)
    pub open spec fn sel(&self, x: u64) -> bool {
        (self.allow_list is None || self.allow_list->0@.contains(x)) &&
        (self.block_list is None || !self.block_list->0@.contains(x))
    }
    // `Self::default()` comes from #[derive(Default)] on the struct (dropped by R1): both fields None.
    #[verifier::external_body]
    pub fn default() -> (r: Self) ensures r.allow_list is None, r.block_list is None { unimplemented!() }
}
impl BitAndSpecImpl<RowIdMask> for RowIdMask {
    open spec fn obeys_bitand_spec() -> bool { false }
    open spec fn bitand_req(self, rhs: RowIdMask) -> bool { true }
    open spec fn bitand_spec(self, rhs: RowIdMask) -> RowIdMask { arbitrary() }
}
impl BitOrSpecImpl<RowIdMask> for RowIdMask {
    open spec fn obeys_bitor_spec() -> bool { false }
    open spec fn bitor_req(self, rhs: RowIdMask) -> bool { true }
    open spec fn bitor_spec(self, rhs: RowIdMask) -> RowIdMask { arbitrary() }
}
impl NotSpecImpl for RowIdMask {
    open spec fn obeys_not_spec() -> bool { false }
    open spec fn not_req(self) -> bool { true }
    open spec fn not_spec(self) -> RowIdMask { arbitrary() }
}

impl RowIdMask {
//@extract rust/lance-core/src/utils/mask.rs :: impl RowIdMask :: fn all_rows
//@ name RowIdMask::all_rows
//@ result r
//@ spec
//@|     ensures forall|x: u64| r.sel(x),
//@end
//@extract rust/lance-core/src/utils/mask.rs :: impl RowIdMask :: fn allow_nothing
//@ name RowIdMask::allow_nothing
//@ result r
//@ spec
//@|     ensures forall|x: u64| !r.sel(x),
//@end
//@extract rust/lance-core/src/utils/mask.rs :: impl RowIdMask :: fn from_allowed
//@ name RowIdMask::from_allowed
//@ result r
//@ spec
//@|     ensures forall|x: u64| r.sel(x) == allow_list@.contains(x),
//@end
//@extract rust/lance-core/src/utils/mask.rs :: impl RowIdMask :: fn from_block
//@ name RowIdMask::from_block
//@ result r
//@ spec
//@|     ensures forall|x: u64| r.sel(x) == !block_list@.contains(x),
//@end
//@extract rust/lance-core/src/utils/mask.rs :: impl RowIdMask :: fn normalize
//@ name RowIdMask::normalize
//@ result r
//@ spec
//@|     ensures forall|x: u64| r.sel(x) == self.sel(x),
//@|             !(r.allow_list is Some && r.block_list is Some),
//@end
//@extract rust/lance-core/src/utils/mask.rs :: impl RowIdMask :: fn selected
//@ name RowIdMask::selected
//@ result r
//@ spec
//@|     ensures r == self.sel(row_id),
//@end
//@extract rust/lance-core/src/utils/mask.rs :: impl RowIdMask :: fn also_block
//@ name RowIdMask::also_block
//@ result r
//@ spec
//@|     ensures forall|x: u64| r.sel(x) == (self.sel(x) && !block_list@.contains(x)),
//@end
//@extract rust/lance-core/src/utils/mask.rs :: impl RowIdMask :: fn also_allow
//@ name RowIdMask::also_allow
//@ result r
//@ spec
//@|     ensures forall|x: u64| r.sel(x) ==
//@|                 ((self.allow_list is None || self.allow_list->0@.contains(x) || allow_list@.contains(x))
//@|                  && (self.block_list is None || !self.block_list->0@.contains(x))),
//@end
}

impl std::ops::Not for RowIdMask {
    type Output = Self;
//@extract rust/lance-core/src/utils/mask.rs :: impl std::ops::Not for RowIdMask :: fn not
//@ name RowIdMask::not
//@ result r
//@ spec
//@|     ensures forall|x: u64| r.sel(x) == !self.sel(x),
//@end
}
impl std::ops::BitAnd for RowIdMask {
    type Output = Self;
//@extract rust/lance-core/src/utils/mask.rs :: impl std::ops::BitAnd for RowIdMask :: fn bitand
//@ name RowIdMask::bitand
//@ result r
//@ spec
//@|     ensures forall|x: u64| r.sel(x) == (self.sel(x) && rhs.sel(x)),
//@end
}
impl std::ops::BitOr for RowIdMask {
    type Output = Self;
//@extract rust/lance-core/src/utils/mask.rs :: impl std::ops::BitOr for RowIdMask :: fn bitor
//@ name RowIdMask::bitor
//@ result r
//@ spec
//@|     ensures forall|x: u64| r.sel(x) == (self.sel(x) || rhs.sel(x)),
//@end
}

// ------------------------------------------------------------------ combination tables
pub struct Error { _e: u8 }
pub type Result<T> = core::result::Result<T, Error>;

//@extract rust/lance-index/src/scalar/expression.rs :: enum IndexExprResult
//@end
//@extract rust/lance-index/src/scalar.rs :: enum SearchResult
//@end

/// `res` is a sound answer for a predicate whose true rows are exactly `t`
pub open spec fn sound(res: IndexExprResult, t: spec_fn(u64) -> bool) -> bool {
    match res {
        IndexExprResult::Exact(m) => forall|x: u64| m.sel(x) == t(x),
        IndexExprResult::AtMost(m) => forall|x: u64| t(x) ==> m.sel(x),
        IndexExprResult::AtLeast(m) => forall|x: u64| m.sel(x) ==> t(x),
    }
}
pub open spec fn is_exact(res: IndexExprResult) -> bool { res is Exact }

//@extract rust/lance-index/src/scalar/expression.rs :: impl ScalarIndexExpr :: fn evaluate :: arm "Self::Not" :: match#1
//@ name not_table
//@ wrap
//@| pub fn not_table(result: IndexExprResult, Ghost(t): Ghost<spec_fn(u64) -> bool>) -> (r: Result<IndexExprResult>)
//@ spec
//@|     requires sound(result, t),
//@|     ensures r is Ok,
//@|             sound(r->Ok_0, |x: u64| !t(x)),
//@|             is_exact(result) ==> is_exact(r->Ok_0),
//@end

//@extract rust/lance-index/src/scalar/expression.rs :: impl ScalarIndexExpr :: fn evaluate :: arm "Self::And" :: match#1
//@ name and_table
//@ subst lhs_result? => lhs_result
//@ subst rhs_result? => rhs_result
//@ wrap
//@| pub fn and_table(lhs_result: IndexExprResult, rhs_result: IndexExprResult, Ghost(t1): Ghost<spec_fn(u64) -> bool>, Ghost(t2): Ghost<spec_fn(u64) -> bool>) -> (r: Result<IndexExprResult>)
//@ spec
//@|     requires sound(lhs_result, t1), sound(rhs_result, t2),
//@|     ensures r is Ok,
//@|             sound(r->Ok_0, |x: u64| t1(x) && t2(x)),
//@|             (is_exact(lhs_result) && is_exact(rhs_result)) ==> is_exact(r->Ok_0),
//@end

//@extract rust/lance-index/src/scalar/expression.rs :: impl ScalarIndexExpr :: fn evaluate :: arm "Self::Or" :: match#1
//@ name or_table
//@ subst lhs_result? => lhs_result
//@ subst rhs_result? => rhs_result
//@ wrap
//@| pub fn or_table(lhs_result: IndexExprResult, rhs_result: IndexExprResult, Ghost(t1): Ghost<spec_fn(u64) -> bool>, Ghost(t2): Ghost<spec_fn(u64) -> bool>) -> (r: Result<IndexExprResult>)
//@ spec
//@|     requires sound(lhs_result, t1), sound(rhs_result, t2),
//@|     ensures r is Ok,
//@|             sound(r->Ok_0, |x: u64| t1(x) || t2(x)),
//@|             (is_exact(lhs_result) && is_exact(rhs_result)) ==> is_exact(r->Ok_0),
//@end

/// what an index's own answer claims about the true set `t` (doc comments of SearchResult)
pub open spec fn search_sound(res: SearchResult, t: spec_fn(u64) -> bool) -> bool {
    match res {
        SearchResult::Exact(ids) => forall|x: u64| ids@.contains(x) == t(x),
        SearchResult::AtMost(ids) => forall|x: u64| t(x) ==> ids@.contains(x),
        SearchResult::AtLeast(ids) => forall|x: u64| ids@.contains(x) ==> t(x),
    }
}

//@extract rust/lance-index/src/scalar/expression.rs :: impl ScalarIndexExpr :: fn evaluate :: arm "Self::Query" :: match#1
//@ name leaf_table
//@ wrap
//@| pub fn leaf_table(search_result: SearchResult, Ghost(t): Ghost<spec_fn(u64) -> bool>) -> (r: Result<IndexExprResult>)
//@ spec
//@|     requires search_sound(search_result, t),
//@|     ensures r is Ok, sound(r->Ok_0, t),
//@|             (search_result is Exact) ==> is_exact(r->Ok_0),
//@end

} // verus!
fn main() {}
