// Unit `version_seq` -- per-row version columns (C17, lookup half only): RowDatasetVersionRun::{len,version},
// RowDatasetVersionSequence::version_at, VersionsIter::{new,advance_run,next} from rust/lance-table/src/rowids/version.rs.
use vstd::prelude::*;
verus! {

// ---- context: U64Segment is abstract (its own faithfulness is C34's business); only its length is used here
#[verifier::external_body]
pub struct U64Segment { _p: u8 }
pub uninterp spec fn seg_len(s: &U64Segment) -> nat;
impl U64Segment {
    #[verifier::external_body]
    pub fn len(&self) -> (r: usize) ensures r as nat == seg_len(self) { unimplemented!() }
}

//@extract rust/lance-table/src/rowids/version.rs :: struct RowDatasetVersionRun
//@end

impl RowDatasetVersionRun {
    pub open spec fn slen(&self) -> nat { seg_len(&self.span) }

//@extract rust/lance-table/src/rowids/version.rs :: impl RowDatasetVersionRun :: fn len
//@ name RowDatasetVersionRun::len
//@ result r
//@ spec
//@|     ensures r as nat == self.slen(),
//@end

//@extract rust/lance-table/src/rowids/version.rs :: impl RowDatasetVersionRun :: fn version
//@ name RowDatasetVersionRun::version
//@ result r
//@ spec
//@|     ensures r == self.version,
//@end
}

//@extract rust/lance-table/src/rowids/version.rs :: struct RowDatasetVersionSequence
//@end

pub open spec fn rep(n: nat, v: u64) -> Seq<u64> { Seq::new(n, |i: int| v) }
/// the model: the expansion of runs[k..] -- each run contributes `len` copies of its version, in order
pub open spec fn expand(runs: Seq<RowDatasetVersionRun>, k: int) -> Seq<u64>
    decreases runs.len() - k
{
    if k < 0 || k >= runs.len() { Seq::empty() } else { rep(runs[k].slen(), runs[k].version) + expand(runs, k + 1) }
}
/// total rows in runs[0..k]
pub open spec fn total(runs: Seq<RowDatasetVersionRun>, k: int) -> nat
    decreases k
{
    if k <= 0 { 0 } else { total(runs, k - 1) + runs[k - 1].slen() }
}
pub proof fn lemma_total_mono(runs: Seq<RowDatasetVersionRun>, i: int, j: int)
    requires 0 <= i <= j <= runs.len(),
    ensures total(runs, i) <= total(runs, j),
    decreases j - i
{ if i < j { lemma_total_mono(runs, i, j - 1); } }

pub proof fn lemma_expand_len(runs: Seq<RowDatasetVersionRun>, k: int)
    requires 0 <= k <= runs.len(),
    ensures expand(runs, k).len() + total(runs, k) == total(runs, runs.len() as int),
    decreases runs.len() - k
{
    if k < runs.len() {
        lemma_expand_len(runs, k + 1);
    }
}
/// position idx of the expansion lies in run j exactly when total(j) <= idx < total(j+1)
pub proof fn lemma_expand_index(runs: Seq<RowDatasetVersionRun>, k: int, j: int, idx: int)
    requires 0 <= k <= j < runs.len(), total(runs, j) <= idx < total(runs, j + 1),
    ensures idx - total(runs, k) >= 0, idx - total(runs, k) < expand(runs, k).len(), expand(runs, k)[idx - total(runs, k)] == runs[j].version,
    decreases j - k
{
    lemma_total_mono(runs, k, j);
    lemma_expand_len(runs, k);
    lemma_total_mono(runs, j + 1, runs.len() as int);
    if k == j {
    } else {
        lemma_expand_index(runs, k + 1, j, idx);
        lemma_total_mono(runs, k + 1, j);
    }
}

impl RowDatasetVersionSequence {
//@extract rust/lance-table/src/rowids/version.rs :: impl RowDatasetVersionSequence :: fn version_at
//@ name RowDatasetVersionSequence::version_at
//@ result r
//@ spec
//@|     requires total(self.runs@, self.runs@.len() as int) <= usize::MAX,
//@|     ensures (index as int) < expand(self.runs@, 0).len() ==> r == Some(expand(self.runs@, 0)[index as int]),
//@|             (index as int) >= expand(self.runs@, 0).len() ==> r is None,
//@ at loop:1:iter
//@| it
//@ loop 1
//@|     invariant offset as nat == total(self.runs@, it.index@ as int), index as int >= offset as int,
//@|         total(self.runs@, self.runs@.len() as int) <= usize::MAX,
//@ at loop:1:body_start
//@|     proof {
//@|         lemma_total_mono(self.runs@, it.index@ as int + 1, self.runs@.len() as int);
//@|         assert(total(self.runs@, it.index@ as int + 1) == total(self.runs@, it.index@ as int) + self.runs@[it.index@ as int].slen());
//@|         if (index as int) < offset as int + self.runs@[it.index@ as int].slen() {
//@|             lemma_expand_index(self.runs@, 0, it.index@ as int, index as int); lemma_expand_len(self.runs@, 0);
//@|         }
//@|     }
//@ at loop:1:after
//@|     proof { lemma_expand_len(self.runs@, 0); }
//@end
}

//@extract rust/lance-table/src/rowids/version.rs :: struct VersionsIter
//@end

pub open spec fn no_empty_from(runs: Seq<RowDatasetVersionRun>, k: int) -> bool {
    forall|j: int| k <= j < runs.len() && 0 <= j ==> (#[trigger] runs[j]).slen() > 0
}
impl<'a> VersionsIter<'a> {
    /// what the iterator will still yield
    pub closed spec fn rest(&self) -> Seq<u64> {
        rep(self.remaining_in_run as nat, self.current_version) + expand(self.runs@, self.run_idx + 1)
    }
    /// no empty run ahead (every constructor in /repo keeps runs non-empty: from_uniform_row_count, mask's retain,
    /// rechunk_version_sequences; a sequence deserialised from foreign bytes is NOT covered)
    pub closed spec fn inv(&self) -> bool {
        no_empty_from(self.runs@, self.run_idx + 1) && self.run_idx < usize::MAX
    }

//@extract rust/lance-table/src/rowids/version.rs :: impl<'a> VersionsIter<'a> :: fn new
//@ name VersionsIter::new
//@ result r
//@ spec
//@|     requires no_empty_from(runs@, 1),
//@|     ensures r.rest() =~= expand(runs@, 0), r.inv(),
//@end

//@extract rust/lance-table/src/rowids/version.rs :: impl<'a> VersionsIter<'a> :: fn advance_run
//@ name VersionsIter::advance_run
//@ spec
//@|     ensures final(self).runs == old(self).runs, final(self).run_idx == old(self).run_idx,
//@|         old(self).run_idx < old(self).runs@.len() ==> final(self).remaining_in_run as nat == old(self).runs@[old(self).run_idx as int].slen()
//@|              && final(self).current_version == old(self).runs@[old(self).run_idx as int].version,
//@|         old(self).run_idx >= old(self).runs@.len() ==> final(self).remaining_in_run == 0 && final(self).current_version == old(self).current_version,
//@end

// R9 (stated in the evidence): `next` is the body of `impl Iterator for VersionsIter`; it is verified here as an
// inherent method (the trait header and `type Item = u64` are dropped, `Self::Item` -> u64; the body is verbatim).
//@extract rust/lance-table/src/rowids/version.rs :: impl<'a> Iterator for VersionsIter<'a> :: fn next
//@ name VersionsIter::next
//@ subst Self::Item => u64
//@ result r
//@ spec
//@|     requires old(self).inv(),
//@|     ensures final(self).inv() || r is None,
//@|         old(self).rest().len() == 0 ==> r is None && final(self).rest().len() == 0,
//@|         old(self).rest().len() > 0 ==> r == Some(old(self).rest()[0]) && final(self).rest() =~= old(self).rest().drop_first(),
//@end
}

/// the iterator and random access agree: the k-th value the iterator yields is version_at(k) (both equal expand[k])
pub proof fn lemma_iter_and_random_access_agree(runs: Seq<RowDatasetVersionRun>, k: int)
    requires 0 <= k < expand(runs, 0).len(),
    ensures expand(runs, 0).skip(k).len() > 0, expand(runs, 0).skip(k)[0] == expand(runs, 0)[k],
{}

} // verus!
fn main() {}
