// Unit `sched_ranges` -- C30, byte-exactness ingredients of `FileScheduler::submit_request` (rust/lance-io/src/scheduler.rs):
// the coalescing step and the splitting of a coalesced interval by max_iop_size.  Verified text: `is_close_together`,
// `is_overlapping` (whole fns) and the BODIES of the first two loops of submit_request, cut verbatim (R7 `loopbody#k`)
// and wrapped as fns whose parameters are the loop variables / the locals they touch; only `self.block_size` ->
// `block_size`, `self.max_iop_size` -> `max_iop_size`, and the coalescing step returns the local `curr_interval`.
// Dropped: the loop headers (`request.iter().skip(1)`: iterator adapter; `for req in merged_requests`), the statistics
// call, the submission to the I/O queue and the un-coalescing loop in the `async move` block (Bytes).
use vstd::prelude::*;
use vstd::std_specs::cmp::PartialOrdSpec;
use std::ops::Range;
verus! {

// ---- assumed contracts of std (trusted, listed in the evidence)
pub assume_specification [u64::div_ceil] (a: u64, b: u64) -> (r: u64)
    requires b > 0,
    ensures r as int == (a as int + b as int - 1) / (b as int), a > 0 ==> r >= 1;

pub assume_specification<Idx: Clone> [<Range<Idx> as Clone>::clone] (x: &Range<Idx>) -> (r: Range<Idx>)
    ensures call_ensures(Idx::clone, (&x.start,), r.start), call_ensures(Idx::clone, (&x.end,), r.end);

pub assume_specification<Idx> [Range::<Idx>::is_empty] (x: &Range<Idx>) -> (r: bool)
    where Idx: PartialOrd + PartialOrd,
    ensures Idx::obeys_partial_cmp_spec() ==> r == !(x.start.partial_cmp_spec(&x.end) == Some(core::cmp::Ordering::Less));

/// every byte of `r` is a byte of `m`
pub open spec fn covers(m: Range<u64>, r: Range<u64>) -> bool { m.start <= r.start && r.end <= m.end }

/// byte `b` belongs to the range
pub open spec fn has_byte(r: Range<u64>, b: u64) -> bool { r.start <= b < r.end }

/// `s` is a gap-free, overlap-free, in-order cover of the byte range lo..hi
pub open spec fn tiles(s: Seq<Range<u64>>, lo: u64, hi: u64) -> bool {
    s.len() >= 1 && s[0].start == lo && s[s.len() - 1].end == hi
    && (forall|j: int| 0 <= j < s.len() ==> (#[trigger] s[j]).start <= s[j].end)
    && (forall|j: int| 0 <= j < s.len() - 1 ==> (#[trigger] s[j]).end == s[j + 1].start)
}

proof fn lemma_chunks(size: int, rcs: int, n: int, cs: int)
    requires 0 < rcs, 0 < size, n == (size + rcs - 1) / rcs, cs == size / n,
    ensures 1 <= n <= size, 1 <= cs, cs * n <= size,
{
    assert(1 <= n <= size && 1 <= cs && cs * n <= size) by(nonlinear_arith)
        requires 0 < rcs, 0 < size, n == (size + rcs - 1) / rcs, cs == size / n;
}

proof fn lemma_mul_le(i: int, n: int, cs: int, size: int)
    requires 0 <= i < n, 0 <= cs, cs * n <= size,
    ensures 0 <= i * cs, (i + 1) * cs <= size, (i + 1) * cs == i * cs + cs,
{
    assert(0 <= i * cs && (i + 1) * cs <= size && (i + 1) * cs == i * cs + cs) by(nonlinear_arith)
        requires 0 <= i < n, 0 <= cs, cs * n <= size;
}

//@extract rust/lance-io/src/scheduler.rs :: fn is_close_together
//@ name is_close_together
//@ result r
//@ spec
//@|     // WHEN two requests are merged is a performance choice the property does not constrain (coalesce_step below is
//@|     // proved for either answer); the obligation here is only that the sum cannot overflow
//@|     requires range1.end + block_size <= u64::MAX,
//@|     ensures true,
//@end

//@extract rust/lance-io/src/scheduler.rs :: fn is_overlapping
//@ name is_overlapping
//@ result r
//@ spec
//@|     ensures range1.start < range1.end && range2.start < range2.end ==> r == (exists|b: u64| #[trigger] has_byte(*range1, b) && has_byte(*range2, b)),
//@|         // an EMPTY range strictly inside the other one counts as overlapping (the un-coalescing loop relies on this
//@|         // to emit an empty buffer for it)
//@|         range1.start < range2.start && range2.start == range2.end && range2.end < range1.end ==> r,
//@ at body_start
//@|     proof {
//@|         if range1.start < range2.end && range2.start < range1.end && range1.start < range1.end && range2.start < range2.end {
//@|             let b = if range1.start >= range2.start { range1.start } else { range2.start };
//@|             assert(has_byte(*range1, b) && has_byte(*range2, b));
//@|         }
//@|     }
//@end

// One step of the coalescing loop.  `curr_interval` is the interval being grown, `merged_requests` the finished ones.
// Requests arrive ordered by start (precondition, as every caller in lance-encoding produces them).
//@extract rust/lance-io/src/scheduler.rs :: impl FileScheduler :: fn submit_request :: loopbody#1
//@ name coalesce_step
//@ subst self.block_size => block_size
//@ tail curr_interval
//@ wrap
//@| fn coalesce_step(mut curr_interval: Range<u64>, req: &Range<u64>, block_size: u64, merged_requests: &mut Vec<Range<u64>>) -> (c: Range<u64>)
//@ spec
//@|     requires curr_interval.start <= req.start, curr_interval.end + block_size <= u64::MAX,
//@|     ensures
//@|         covers(c, *req), c.start <= req.start,
//@|         final(merged_requests)@ == old(merged_requests)@ || final(merged_requests)@ == old(merged_requests)@.push(curr_interval),
//@|         forall|r: Range<u64>| #[trigger] covers(curr_interval, r) ==> covers(c, r)
//@|             || (final(merged_requests)@.len() == old(merged_requests)@.len() + 1 && covers(final(merged_requests)@.last(), r)),
//@|         c.end == req.end || c.end == curr_interval.end,
//@end

// Splitting one coalesced interval into requests of at most ~max_iop_size bytes.
//@extract rust/lance-io/src/scheduler.rs :: impl FileScheduler :: fn submit_request :: loopbody#2
//@ name split_merged_request
//@ subst self.max_iop_size => max_iop_size
//@ wrap
//@| fn split_merged_request(req: Range<u64>, max_iop_size: u64, updated_requests: &mut Vec<Range<u64>>)
//@ spec
//@|     requires req.start <= req.end, max_iop_size > 0,
//@|     ensures
//@|         final(updated_requests)@.len() > old(updated_requests)@.len(),
//@|         final(updated_requests)@.subrange(0, old(updated_requests)@.len() as int) == old(updated_requests)@,
//@|         tiles(final(updated_requests)@.subrange(old(updated_requests)@.len() as int, final(updated_requests)@.len() as int), req.start, req.end),
//@ at loop:1:before
//@|     proof { lemma_chunks(req.end - req.start, max_iop_size as int, num_requests as int, bytes_per_request as int); }
//@ loop 1
//@|     invariant
//@|         1 <= num_requests, 1 <= bytes_per_request, bytes_per_request * num_requests <= req.end - req.start,
//@|         req.start <= req.end,
//@|         updated_requests@.len() == old(updated_requests)@.len() + i,
//@|         updated_requests@.subrange(0, old(updated_requests)@.len() as int) == old(updated_requests)@,
//@|         forall|j: int| 0 <= j < i ==> (#[trigger] updated_requests@[old(updated_requests)@.len() + j]).start == req.start + j * bytes_per_request
//@|             && updated_requests@[old(updated_requests)@.len() + j].end == (if j == num_requests - 1 { req.end as int } else { req.start + (j + 1) * bytes_per_request }),
//@ at loop:1:body_start
//@|     proof { lemma_mul_le(i as int, num_requests as int, bytes_per_request as int, req.end - req.start); }
//@ at loop:1:after
//@|     proof {
//@|         let n0 = old(updated_requests)@.len() as int;
//@|         let s = updated_requests@.subrange(n0, updated_requests@.len() as int);
//@|         assert(s.len() == num_requests);
//@|         assert forall|j: int| 0 <= j < s.len() implies (#[trigger] s[j]).start <= s[j].end by {
//@|             assert(s[j] == updated_requests@[n0 + j]);
//@|             lemma_mul_le(j, num_requests as int, bytes_per_request as int, req.end - req.start);
//@|         }
//@|         assert forall|j: int| 0 <= j < s.len() - 1 implies (#[trigger] s[j]).end == s[j + 1].start by {
//@|             assert(s[j] == updated_requests@[n0 + j]);
//@|             assert(s[j + 1] == updated_requests@[n0 + (j + 1)]);
//@|         }
//@|         assert(s[0] == updated_requests@[n0 + 0]);
//@|         assert(s[s.len() - 1] == updated_requests@[n0 + (num_requests - 1)]);
//@|     }
//@ at body_end
//@|     proof {
//@|         let n0 = old(updated_requests)@.len() as int;
//@|         let s = updated_requests@.subrange(n0, updated_requests@.len() as int);
//@|         assert(s[0] == updated_requests@[n0]);
//@|     }
//@end

} // verus!
fn main() {}
