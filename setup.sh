#!/bin/sh
# MANIFEST.setup_cmd: build the framework from files on disk only (offline).
# 1. native replay / audit harness against the real crates in /repo (path deps)
# 2. warm Verus (first run after a restore is slow)
set -e
cd "$(dirname "$0")"
export CARGO_NET_OFFLINE=true
mkdir -p build evidence replays
cp /repo/Cargo.lock replay/Cargo.lock
(cd replay && CARGO_TARGET_DIR="$PWD/../build/replay-target" cargo build --offline --quiet) || echo "setup: replay harness failed to build (checks will report audits as undecided)"
printf 'use vstd::prelude::*;\nverus!{ proof fn t() ensures 1 + 1 == 2int {} }\nfn main(){}\n' > build/warm.rs
verus build/warm.rs >/dev/null 2>&1 || true
if [ -x tools/setup_kani.sh ]; then tools/setup_kani.sh || true; fi
echo "setup done"
