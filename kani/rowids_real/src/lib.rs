//! Kani unit `rowids_real`: the REAL files rust/lance-table/src/rowids/{bitmap,encoded_array}.rs, #[path]-included
//! whole (their only import is the real `deepsize`).  Bounded twins of the Verus units rowid_bitmap / encoded_array
//! (they supply concrete counterexamples, executed natively on the real files) plus the functions Verus cannot take
//! (iterator sums / collect): BitmapSlice::count_ones / count_zeros, EncodedU64Array::{from(Vec), iter, min, max, slice}.
#![allow(dead_code, unused_macros, unused_imports, clippy::all)]
#[path = "/repo/rust/lance-table/src/rowids/bitmap.rs"]
pub mod bitmap;
#[path = "/repo/rust/lance-table/src/rowids/encoded_array.rs"]
pub mod encoded_array;

#[cfg(kani)]
mod proofs {
    use super::bitmap::*;
    use super::encoded_array::*;

    /// C34 (masking / selecting a row id sequence counts set bits of a bitmap window): for every bitmap of up to 32
    /// bits and every window [start, start+len) inside it, count_ones is the number of set bits in the window and
    /// count_zeros the number of clear ones -- all three code paths (one byte / two bytes / with middle bytes).
    #[kani::proof]
    #[kani::unwind(34)]
    fn bitmap_slice_counts_window_bits() {
        let bytes: [u8; 4] = kani::any();
        let len: usize = 32;
        let bm = Bitmap { data: vec![bytes[0], bytes[1], bytes[2], bytes[3]], len };
        let start: usize = kani::any(); let wlen: usize = kani::any();
        kani::assume(start <= len && wlen <= len - start);
        let s = bm.slice(start, wlen);
        let mut want = 0usize;
        for i in 0..32 { if i >= start && i < start + wlen && bytes[i / 8] & (1 << (i % 8)) != 0 { want += 1; } }
        assert!(s.count_ones() == want, "count_ones is not the number of set bits in the window");
        assert!(s.count_zeros() == wlen - want, "count_zeros is not the number of clear bits in the window");
        kani::cover!(wlen > 0 && start / 8 == (start + wlen - 1) / 8);
        kani::cover!(wlen > 0 && (start + wlen - 1) / 8 == start / 8 + 1);
        kani::cover!(wlen > 0 && (start + wlen - 1) / 8 > start / 8 + 1);
    }

    /// twin of the Verus rowid_bitmap unit: set / clear change exactly one bit, new_full has all bits set and zero padding
    #[kani::proof]
    #[kani::unwind(18)]
    fn bitmap_set_clear_get() {
        let len: usize = kani::any(); kani::assume(len >= 1 && len <= 16);
        let mut bm = if kani::any() { Bitmap::new_full(len) } else { Bitmap::new_empty(len) };
        let full = bm.get(0);
        let (i, j): (usize, usize) = (kani::any(), kani::any());
        kani::assume(i < len && j < len);
        let before_j = bm.get(j);
        let setting: bool = kani::any();
        if setting { bm.set(i); } else { bm.clear(i); }
        assert!(bm.get(i) == setting, "set/clear does not change the addressed bit");
        if j != i { assert!(bm.get(j) == before_j, "set/clear changes another bit"); }
        assert!(before_j == full, "new_full / new_empty is not uniform");
        // padding bits stay zero (count_zeros relies on it)
        let total: usize = bm.count_ones();
        let mut want = 0; for k in 0..16 { if k < len && bm.get(k) { want += 1; } }
        assert!(total == want, "padding bits beyond len are set");
        assert!(bm.len() == len);
        kani::cover!(len % 8 != 0 && full);
    }

    fn take<T: Copy>(o: [T; 3], n: usize) -> Vec<T> { match n { 0 => vec![], 1 => vec![o[0]], 2 => vec![o[0], o[1]], _ => vec![o[0], o[1], o[2]] } }
    fn any_array(n: usize) -> (EncodedU64Array, [u64; 3], usize) {
        // a SORTED array of n <= 3 ids (n is CONCRETE: one harness per length) in one of the three encodings
        match kani::any::<u8>() % 3 {
            0 => { let base: u64 = kani::any(); let o: [u16; 3] = kani::any(); kani::assume(o[0] <= o[1] && o[1] <= o[2] && base <= u64::MAX - 0xffff);
                   (EncodedU64Array::U16 { base, offsets: take(o, n) }, [base + o[0] as u64, base + o[1] as u64, base + o[2] as u64], n) }
            1 => { let base: u64 = kani::any(); let o: [u32; 3] = kani::any(); kani::assume(o[0] <= o[1] && o[1] <= o[2] && base <= u64::MAX - 0xffff_ffff);
                   (EncodedU64Array::U32 { base, offsets: take(o, n) }, [base + o[0] as u64, base + o[1] as u64, base + o[2] as u64], n) }
            _ => { let o: [u64; 3] = kani::any(); kani::assume(o[0] <= o[1] && o[1] <= o[2]);
                   (EncodedU64Array::U64(take(o, n)), o, n) }
        }
    }
    /// twin of the Verus encoded_array unit (+ min / max): accessors agree with the id list the array denotes;
    /// binary_search finds every present id and reports absent ids as absent, for all u64 probes incl. those below the
    /// base and just above the offset range
    #[kani::proof] #[kani::unwind(6)] fn encoded_array_accessors_and_search_len3() { accessors_and_search(3) }
    #[kani::proof] #[kani::unwind(6)] fn encoded_array_accessors_and_search_len2() { accessors_and_search(2) }
    #[kani::proof] #[kani::unwind(6)] fn encoded_array_accessors_and_search_len01() { if kani::any() { accessors_and_search(1) } else { accessors_and_search(0) } }
    fn accessors_and_search(n: usize) {
        let (arr, ids, n) = any_array(n);
        assert!(arr.len() == n);
        let i: usize = kani::any(); kani::assume(i < 4);
        assert!(arr.get(i) == if i < n { Some(ids[i]) } else { None }, "get(i) is not the i-th id");
        assert!(arr.first() == if n > 0 { Some(ids[0]) } else { None });
        assert!(arr.last() == if n > 0 { Some(ids[n - 1]) } else { None });
        // min() of the U16 / U32 encodings answers `base`: right exactly for NORMALISED arrays (smallest offset 0), which
        // is what every constructor in /repo produces (from(Vec), from(Range), slice -> collect)
        let normalised = match &arr { EncodedU64Array::U64(_) => true, _ => n == 0 || arr.get(0) == arr.first() && { let b = match &arr { EncodedU64Array::U16 { base, .. } | EncodedU64Array::U32 { base, .. } => *base, _ => 0 }; ids[0] == b } };
        if normalised { assert!(arr.min() == if n > 0 { Some(ids[0]) } else { None }, "min of a sorted normalised array is its first id"); }
        assert!(arr.max() == if n > 0 { Some(ids[n - 1]) } else { None }, "max of a sorted array is its last id");
        let probe: u64 = kani::any();
        let present = (n > 0 && ids[0] == probe) || (n > 1 && ids[1] == probe) || (n > 2 && ids[2] == probe);
        match arr.binary_search(probe) {
            Ok(p) => { assert!(p < n && ids[p] == probe, "binary_search reports a position that does not hold the id"); }
            Err(p) => { assert!(!present, "binary_search misses an id that is in the array");
                        assert!(p <= n);
                        for k in 0..3 { if k < n { assert!(if k < p { ids[k] < probe } else { ids[k] > probe }, "insertion point is wrong"); } } }
        }
        kani::cover!(present || n == 0); kani::cover!(!present);
    }

    /// "A row id sequence holds exactly the ids it was built from, in order, whatever encoding it picks": building
    /// from a list picks U16 / U32 / U64 by the value range; get and len give back the list (iter / slice go through Box<dyn Iterator> + collect: beyond CBMC's memory here, measured)
    #[kani::proof] #[kani::unwind(6)] fn encoded_array_from_list_roundtrip_len3() { from_list_roundtrip(3) }
    #[kani::proof] #[kani::unwind(6)] fn encoded_array_from_list_roundtrip_len12() { if kani::any() { from_list_roundtrip(2) } else { from_list_roundtrip(1) } }
    fn from_list_roundtrip(n: usize) {
        let ids: [u64; 3] = kani::any();
        let arr = EncodedU64Array::from(take(ids, n));
        assert!(arr.len() == n, "length changed");
        for i in 0..3 { if i < n { assert!(arr.get(i) == Some(ids[i]), "id changed by encoding"); } }
        assert!(arr.get(n) == None);
        kani::cover!(matches!(arr, EncodedU64Array::U16 { .. }));
        kani::cover!(matches!(arr, EncodedU64Array::U32 { .. }));
        kani::cover!(matches!(arr, EncodedU64Array::U64(_)));
    }
}
