//! shim of lance_core::{Error, Result}: the variants / constructors version.rs, try_infer_version and
//! check_storage_version use (real lance-core cannot be built under Kani's toolchain: ethnum, DESIGN.md section 2)
pub type Result<T> = std::result::Result<T, Error>;
pub type BoxedError = Box<dyn std::error::Error + Send + Sync + 'static>;
#[derive(Debug)]
pub enum Error {
    InvalidInput { source: BoxedError, location: snafu::Location },
    Internal { message: String, location: snafu::Location },
}
impl Error {
    pub fn invalid_input(source: impl Into<BoxedError>, location: snafu::Location) -> Self { Self::InvalidInput { source: source.into(), location } }
}
impl std::fmt::Display for Error { fn fmt(&self, _f: &mut std::fmt::Formatter<'_>) -> std::fmt::Result { Ok(()) } }
