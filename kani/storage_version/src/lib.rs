//! Kani unit `storage_version`: "a table's files all carry the table's storage version" (C37).
//! REAL code: rust/lance-encoding/src/version.rs (whole file, #[path]-included) + the text of
//! `Fragment::try_infer_version` (lance-table/src/format/fragment.rs) and `check_storage_version`
//! (lance/src/io/commit.rs), extracted on every run.  Shims: array-backed Fragment / DataFile lists, a Manifest with the
//! two fields used, and a DataStorageFormat that stores the version VALUE (the real one stores its name as a string and
//! parses it back: the name tables are the fileversion unit's business).
#![allow(dead_code, unused_macros, unused_imports, clippy::all)]
extern crate alloc;
#[path = "/repo/rust/lance-encoding/src/version.rs"]
pub mod version;
use lance_core::{Error, Result};
use snafu::location;
use version::LanceFileVersion;
pub mod log { macro_rules! warn_ { ($($t:tt)*) => {}; } pub(crate) use warn_ as warn; }

#[derive(Clone, Copy, Debug)]
pub struct DataFile { pub file_major_version: u32, pub file_minor_version: u32 }
/// stands for Vec<DataFile>
#[derive(Clone, Copy, Debug)]
pub struct Files { pub items: [DataFile; 2], pub n: usize }
impl Files { pub fn is_empty(&self) -> bool { self.n == 0 } }
impl std::ops::Index<usize> for Files { type Output = DataFile; fn index(&self, i: usize) -> &DataFile { &self.items[..self.n][i] } }
impl<'a> IntoIterator for &'a Files { type Item = &'a DataFile; type IntoIter = std::slice::Iter<'a, DataFile>; fn into_iter(self) -> Self::IntoIter { self.items[..self.n].iter() } }
#[derive(Clone, Copy, Debug)]
pub struct Fragment { pub id: u64, pub files: Files }
/// stands for Arc<Vec<Fragment>>
pub struct FragList { pub items: [Fragment; 3], pub n: usize }
impl std::ops::Deref for FragList { type Target = [Fragment]; fn deref(&self) -> &[Fragment] { &self.items[..self.n] } }
#[derive(Clone, Copy, Debug, PartialEq)]
pub struct DataStorageFormat { pub v: LanceFileVersion }
impl DataStorageFormat {
    pub fn new(version: LanceFileVersion) -> Self { Self { v: version.resolve() } }
    pub fn lance_file_version(&self) -> Result<LanceFileVersion> { Ok(self.v) }
}
pub struct Manifest { pub data_storage_format: DataStorageFormat, pub fragments: FragList }

include!("gen/infer.rs");
include!("gen/check.rs");

#[cfg(kani)]
mod proofs {
    use super::*;
    use super::version::LanceFileVersion as V;
    fn fmt_stub(_args: std::fmt::Arguments<'_>) -> String { String::new() }
    fn any_file() -> DataFile {
        // the seven accepted number pairs and one that is not a version at all
        let (a, b) = match kani::any::<u8>() % 8 { 0 => (0, 0), 1 => (0, 1), 2 => (0, 2), 3 => (0, 3), 4 => (2, 0), 5 => (2, 1), 6 => (2, 2), _ => (7, 7) };
        DataFile { file_major_version: a, file_minor_version: b }
    }
    fn any_frags() -> FragList {
        let f = || { let n: usize = kani::any(); kani::assume(n <= 2); Fragment { id: kani::any(), files: Files { items: [any_file(), any_file()], n } } };
        let n: usize = kani::any(); kani::assume(n <= 3);
        FragList { items: [f(), f(), f()], n }
    }
    fn vers(d: &DataFile) -> Option<V> { V::try_from_major_minor(d.file_major_version, d.file_minor_version).ok() }
    /// oracle: Some(Some(v)) all files have version v; Some(None) no file at all; None = mixed or unknown versions
    fn uniform(fl: &FragList) -> Option<Option<V>> {
        let mut seen: Option<V> = None; let mut bad = false;
        for i in 0..3 { if i < fl.n { for j in 0..2 { if j < fl.items[i].files.n {
            match vers(&fl.items[i].files.items[j]) { None => bad = true, Some(v) => match seen { None => seen = Some(v), Some(s) => if s != v { bad = true; } } }
        } } } }
        if bad { None } else { Some(seen) }
    }

    #[kani::proof]
    #[kani::unwind(6)]
    #[kani::stub(alloc::fmt::format, fmt_stub)]
    fn inferred_version_is_the_version_of_every_file() {
        let fl = any_frags();
        let r = Fragment::try_infer_version(&fl);
        match (uniform(&fl), r) {
            (Some(want), Ok(got)) => assert!(want == got, "inferred version is not the version every data file carries"),
            (None, Err(_)) => {}
            (None, Ok(_)) => assert!(false, "a table mixing file versions (or with an unknown one) gets an inferred version"),
            (Some(_), Err(_)) => assert!(false, "a table whose files all carry one version is refused"),
        }
        kani::cover!(matches!(uniform(&fl), Some(Some(_))) && fl.n == 3);
        kani::cover!(uniform(&fl).is_none());
    }

    /// after a successful commit-time check the table's storage version IS the version of its data files (if it has
    /// any); it is never lowered; mixed tables and non-legacy tables with foreign files are refused
    #[kani::proof]
    #[kani::unwind(6)]
    #[kani::stub(alloc::fmt::format, fmt_stub)]
    fn committed_table_version_matches_its_files() {
        let declared = match kani::any::<u8>() % 4 { 0 => V::Legacy, 1 => V::V2_0, 2 => V::V2_1, _ => V::V2_2 };   // stored versions are concrete (DataStorageFormat::new resolves)
        let mut m = Manifest { data_storage_format: DataStorageFormat::new(declared), fragments: any_frags() };
        let files = uniform(&m.fragments);
        let r = check_storage_version(&mut m);
        let after = m.data_storage_format.v;
        match r {
            Ok(()) => {
                match files { Some(Some(v)) => assert!(after == v, "table committed with a storage version its files do not carry"),
                              Some(None) => assert!(after == declared),
                              None => assert!(false, "a table mixing file versions is committed") }
                assert!(after >= declared, "storage version lowered");
            }
            Err(_) => { assert!(after == declared, "failed check changed the table"); assert!(files != Some(None) && files != Some(Some(declared)), "consistent table refused"); }
        }
        kani::cover!(r.is_ok() && after != declared);
        kani::cover!(r.is_err() && files.is_some());
    }
}
