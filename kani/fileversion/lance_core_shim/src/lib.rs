//! shim of lance_core::{Error, Result}: only the variant version.rs constructs (real lance-core cannot be built
//! under Kani's toolchain: ethnum, DESIGN.md section 2)
pub type Result<T> = std::result::Result<T, Error>;
pub type BoxedError = Box<dyn std::error::Error + Send + Sync + 'static>;
#[derive(Debug)]
pub enum Error { InvalidInput { source: BoxedError, location: snafu::Location } }
