//! Kani unit `fileversion`: rust/lance-encoding/src/version.rs, the WHOLE REAL FILE #[path]-included (real snafu,
//! real strum; lance_core::{Error,Result} shimmed), plus the two name tables (the `match` inside Display::fmt and
//! inside FromStr::from_str) sliced out verbatim (R7) because core::fmt / to_lowercase are beyond CBMC's budget.
#![allow(dead_code, unused_macros, unused_imports, clippy::all)]
extern crate alloc;
#[path = "/repo/rust/lance-encoding/src/version.rs"]
pub mod version;
use lance_core::{Error, Result};
use snafu::location;
use version::*;
include!("gen/tables.rs");
include!("gen/tables2.rs");

#[cfg(kani)]
mod proofs {
    use super::version::LanceFileVersion as V;
    use super::*;
    fn fmt_stub(_args: std::fmt::Arguments<'_>) -> String { String::new() }
    fn any_v() -> V {
        let k: u8 = kani::any();
        kani::assume(k < 6);
        match k { 0 => V::Legacy, 1 => V::V2_0, 2 => V::Stable, 3 => V::V2_1, 4 => V::Next, _ => V::V2_2 }
    }

    /// "Storage version names and numbers convert to each other consistently, aliases resolve to the documented
    /// concrete versions" -- numeric half, complete over the 6 enum values.
    /// docs/src/format/file/versioning.md: legacy = 0.1 (numbers (0,2) on disk), stable = currently 2.0, next = currently 2.1
    #[kani::proof]
    #[kani::unwind(4)]
    #[kani::stub(alloc::fmt::format, fmt_stub)]
    fn numbers_roundtrip_and_aliases() {
        let v = any_v();
        let r = v.resolve();
        assert!(r != V::Stable && r != V::Next, "resolve returns an alias");
        assert!(r.resolve() == r, "resolve not idempotent");
        if v != V::Stable && v != V::Next { assert!(r == v, "resolve changes a concrete version"); }
        assert!(V::Stable.resolve() == V::V2_0, "docs: stable is currently 2.0");
        assert!(V::Next.resolve() == V::V2_1, "docs: next is currently 2.1");
        let (a, b) = v.to_numbers();
        assert!((a, b) == r.to_numbers(), "alias and its target have different numbers");
        let back = V::try_from_major_minor(a, b);
        assert!(matches!(back, Ok(x) if x == r), "numbers do not convert back to the version");
        // distinct concrete versions have distinct numbers
        let w = any_v();
        if w.resolve() != r { assert!(w.to_numbers() != (a, b), "two versions share their numbers"); }
        // stability: exactly the versions at or after Next are unstable; the default for new tables is stable
        assert!(v.is_unstable() == (v == V::Next || v == V::V2_2));
        assert!(!V::default().is_unstable() && !V::Stable.resolve().is_unstable());
        kani::cover!(v == V::Next);
        kani::cover!(v == V::Legacy);
    }

    /// exactly the documented (major, minor) pairs are accepted, everything else is refused
    #[kani::proof]
    #[kani::unwind(4)]
    #[kani::stub(alloc::fmt::format, fmt_stub)]
    fn accepted_number_pairs() {
        let a: u32 = kani::any(); let b: u32 = kani::any();
        let r = V::try_from_major_minor(a, b);
        let want = match (a, b) {
            (0, 0) | (0, 1) | (0, 2) => Some(V::Legacy), (0, 3) | (2, 0) => Some(V::V2_0),
            (2, 1) => Some(V::V2_1), (2, 2) => Some(V::V2_2), _ => None };
        match (r, want) {
            (Ok(x), Some(y)) => assert!(x == y),
            (Err(_), None) => {}
            _ => assert!(false, "set of accepted storage version numbers changed"),
        }
        kani::cover!(want.is_some());
        kani::cover!(want.is_none());
    }

    /// string half on the sliced tables: parsing the display name of a version gives that version back; the
    /// documented alias names parse to the documented versions.  (Dropped by the slicing, stated in the evidence:
    /// the write!() around the display table and the to_lowercase() in front of the parse table.)
    #[kani::proof]
    #[kani::unwind(12)]
    #[kani::stub(alloc::fmt::format, fmt_stub)]
    fn name_tables_roundtrip() {
        let v = any_v();
        let name = v.display_name();
        let back = V::parse_name(name, name);
        assert!(matches!(back, Ok(x) if x == v), "a version's own name does not parse back to it");
        assert!(matches!(V::parse_name("legacy", "legacy"), Ok(V::Legacy)));
        assert!(matches!(V::parse_name("0.3", "0.3"), Ok(V::V2_0)));
        assert!(matches!(V::parse_name("0.1", "0.1"), Ok(V::Legacy)));
        assert!(matches!(V::parse_name("2.0", "2.0"), Ok(V::V2_0)));
        assert!(matches!(V::parse_name("2.1", "2.1"), Ok(V::V2_1)));
        assert!(matches!(V::parse_name("2.2", "2.2"), Ok(V::V2_2)));
        assert!(matches!(V::parse_name("stable", "stable"), Ok(V::Stable)));
        assert!(matches!(V::parse_name("next", "next"), Ok(V::Next)));
        assert!(V::parse_name("2.3", "2.3").is_err() && V::parse_name("", "").is_err());
        kani::cover!(v == V::V2_2);
    }
}
