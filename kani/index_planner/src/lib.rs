//! Kani unit `index_planner`: REAL text from rust/lance-index/src/scalar/expression.rs, written into src/gen/ on
//! every run:
//!   * the (operator, operator) -> (low bound, high bound) table inside `maybe_range` (sliced, R7), which turns
//!     `x OP a AND x OP b` into ONE index range query;
//! (The (index query, refine) algebra of IndexedExpression is verified by the Verus unit `indexed_expr`: symbolic Box
//! trees exhaust CBMC's memory, measured.)  Shim: datafusion's `Operator` (the variants named + the rest).
#![allow(dead_code, unused_macros, unused_imports, clippy::all)]
use std::ops::Bound;

// ------------------------------------------------------------------ part 1: the range table
#[derive(Clone, Copy, Debug, PartialEq, Eq)]
pub enum Operator { Eq, NotEq, Lt, LtEq, Gt, GtEq, Plus, Minus, And, Or, IsDistinctFrom, Other }
include!("gen/range_table.rs");

#[cfg(kani)]
mod proofs {
    use super::*;

    // ---------------------------------------------------------------- range table
    fn any_op() -> Operator {
        match kani::any::<u8>() % 12 { 0 => Operator::Eq, 1 => Operator::NotEq, 2 => Operator::Lt, 3 => Operator::LtEq, 4 => Operator::Gt, 5 => Operator::GtEq,
            6 => Operator::Plus, 7 => Operator::Minus, 8 => Operator::And, 9 => Operator::Or, 10 => Operator::IsDistinctFrom, _ => Operator::Other }
    }
    fn holds(x: i64, op: Operator, v: i64) -> bool { match op { Operator::Lt => x < v, Operator::LtEq => x <= v, Operator::Gt => x > v, Operator::GtEq => x >= v, _ => false } }
    fn within(x: i64, lo: &Bound<i64>, hi: &Bound<i64>) -> bool {
        (match lo { Bound::Included(a) => x >= *a, Bound::Excluded(a) => x > *a, Bound::Unbounded => true })
            && (match hi { Bound::Included(b) => x <= *b, Bound::Excluded(b) => x < *b, Bound::Unbounded => true })
    }
    /// C19 ("boundary ... literals"): when `x OP1 a AND x OP2 b` is turned into the single range query [low, high],
    /// every value x is inside the range EXACTLY when it satisfies both comparisons -- for every pair of comparison
    /// operators, every a, b and x (i64 as the representative totally ordered type; loop-free => complete).
    #[kani::proof]
    fn range_query_equals_the_two_comparisons() {
        let (op1, op2) = (any_op(), any_op());
        let (a, b, x): (i64, i64, i64) = (kani::any(), kani::any(), kani::any());
        if let Some((low, high)) = range_bounds(op1, op2, a, b) {
            assert!(within(x, &low, &high) == (holds(x, op1, a) && holds(x, op2, b)),
                    "range query selects different rows than the two comparisons it replaces");
        }
        kani::cover!(range_bounds(op1, op2, a, b).is_some() && op1 == Operator::LtEq && op2 == Operator::Gt);
        kani::cover!(range_bounds(op1, op2, a, b).is_none());
    }

}
