//! Kani unit `bloom_decision`: the REAL text of `BloomFilterIndex::evaluate_block_against_query`
//! (rust/lance-index/src/scalar/bloomfilter.rs) -- the per-zone skip decision of the bloom-filter index -- compiled
//! against a shim of ScalarValue / BloomFilterQuery / BloomFilterStatistics and an ABSTRACT Sbbf: a filter that
//! answers `true` for every key that was inserted (that is what the `sbbf` Verus unit proves about the real Sbbf)
//! and answers nondeterministically for every other key (false positives).
#![allow(dead_code, unused_macros, unused_imports, clippy::all)]
extern crate alloc;
use std::sync::Arc;
macro_rules! location { () => { () }; }
#[derive(Debug)]
pub enum Error { InvalidInput { source: Box<dyn std::error::Error + Send + Sync>, location: () } }
pub type Result<T> = std::result::Result<T, Error>;

#[derive(Clone, Debug, PartialEq)]
pub enum ScalarValue {
    Null, Boolean(Option<bool>),
    Int8(Option<i8>), Int16(Option<i16>), Int32(Option<i32>), Int64(Option<i64>),
    UInt8(Option<u8>), UInt16(Option<u16>), UInt32(Option<u32>), UInt64(Option<u64>),
    Float32(Option<f32>), Float64(Option<f64>),
    Utf8(Option<String>), LargeUtf8(Option<String>),
    Binary(Option<Vec<u8>>), LargeBinary(Option<Vec<u8>>),
    Date32(Option<i32>), Date64(Option<i64>),
    Time32Second(Option<i32>), Time32Millisecond(Option<i32>),
    Time64Microsecond(Option<i64>), Time64Nanosecond(Option<i64>),
    TimestampSecond(Option<i64>, Option<Arc<str>>), TimestampMillisecond(Option<i64>, Option<Arc<str>>),
    TimestampMicrosecond(Option<i64>, Option<Arc<str>>), TimestampNanosecond(Option<i64>, Option<Arc<str>>),
}
impl ScalarValue {
    pub fn is_null(&self) -> bool {
        use ScalarValue::*;
        match self {
            Null => true, Boolean(v) => v.is_none(),
            Int8(v) => v.is_none(), Int16(v) => v.is_none(), Int32(v) => v.is_none(), Int64(v) => v.is_none(),
            UInt8(v) => v.is_none(), UInt16(v) => v.is_none(), UInt32(v) => v.is_none(), UInt64(v) => v.is_none(),
            Float32(v) => v.is_none(), Float64(v) => v.is_none(),
            Utf8(v) | LargeUtf8(v) => v.is_none(), Binary(v) | LargeBinary(v) => v.is_none(),
            Date32(v) => v.is_none(), Date64(v) => v.is_none(),
            Time32Second(v) | Time32Millisecond(v) => v.is_none(), Time64Microsecond(v) | Time64Nanosecond(v) => v.is_none(),
            TimestampSecond(v, _) | TimestampMillisecond(v, _) | TimestampMicrosecond(v, _) | TimestampNanosecond(v, _) => v.is_none(),
        }
    }
}
pub mod datafusion_common { pub use super::ScalarValue; }

/// stands for Vec<ScalarValue> (array-backed: CBMC models heap Vecs of large enums byte-wise)
#[derive(Clone, Debug, PartialEq)]
pub struct Lits { pub items: [ScalarValue; 3], pub n: usize }
impl<'a> IntoIterator for &'a Lits { type Item = &'a ScalarValue; type IntoIter = std::slice::Iter<'a, ScalarValue>;
    fn into_iter(self) -> Self::IntoIter { self.items[..self.n].iter() } }
#[derive(Clone, Debug, PartialEq)]
pub enum BloomFilterQuery { Equals(ScalarValue), IsNull(), IsIn(Lits) }

/// the bytes a value is hashed by (AsBytes in /repo: little-endian bytes of the primitive; the string / binary bytes)
#[derive(Clone, Copy, PartialEq, Eq, Debug)]
pub struct Key { pub bits: u64, pub len: u8 }
pub trait AsKey { fn key(&self) -> Key; }
macro_rules! int_key { ($($t:ty),*) => { $(impl AsKey for $t { fn key(&self) -> Key { Key { bits: (*self as u64) & (u64::MAX >> (64 - 8 * std::mem::size_of::<$t>() as u32)), len: std::mem::size_of::<$t>() as u8 } } })* } }
int_key!(i8, i16, i32, i64, u8, u16, u32, u64);
impl AsKey for f32 { fn key(&self) -> Key { Key { bits: self.to_bits() as u64, len: 4 } } }
impl AsKey for f64 { fn key(&self) -> Key { Key { bits: self.to_bits(), len: 8 } } }
impl AsKey for str { fn key(&self) -> Key { Key { bits: self.len() as u64, len: 255 } } }      // strings: not explored by the harness
impl AsKey for [u8] { fn key(&self) -> Key { Key { bits: self.len() as u64, len: 254 } } }
/// ABSTRACT split-block bloom filter: no false negative for the inserted key, arbitrary answer otherwise
pub struct Sbbf { pub inserted: Option<Key> }
impl Sbbf {
    pub fn check<T: AsKey + ?Sized>(&self, v: &T) -> bool {
        if self.inserted == Some(v.key()) { true } else { nondet_bool() }
    }
}
#[cfg(kani)] fn nondet_bool() -> bool { kani::any() }
#[cfg(not(kani))] fn nondet_bool() -> bool { false }
pub struct BloomFilterStatistics { pub fragment_id: u64, pub zone_start: u64, pub zone_length: usize, pub has_null: bool, pub bloom_filter: Sbbf }
pub struct BloomFilterIndex;

include!("gen/bloom.rs");

#[cfg(kani)]
mod proofs {
    use super::*;
    fn fmt_stub(_a: std::fmt::Arguments<'_>) -> String { String::new() }
    /// a typed non-null value of one of the fixed-width column types the index accepts, with its hashing key
    fn any_value(kind: u8, bits: u64) -> (ScalarValue, Key) {
        use ScalarValue::*;
        match kind % 18 {
            0 => { let v = bits as i8; (Int8(Some(v)), v.key()) }      1 => { let v = bits as i16; (Int16(Some(v)), v.key()) }
            2 => { let v = bits as i32; (Int32(Some(v)), v.key()) }    3 => { let v = bits as i64; (Int64(Some(v)), v.key()) }
            4 => { let v = bits as u8; (UInt8(Some(v)), v.key()) }     5 => { let v = bits as u16; (UInt16(Some(v)), v.key()) }
            6 => { let v = bits as u32; (UInt32(Some(v)), v.key()) }   7 => { let v = bits; (UInt64(Some(v)), v.key()) }
            8 => { let v = f32::from_bits(bits as u32); (Float32(Some(v)), v.key()) }
            9 => { let v = f64::from_bits(bits); (Float64(Some(v)), v.key()) }
            10 => { let v = bits as i32; (Date32(Some(v)), v.key()) }  11 => { let v = bits as i64; (Date64(Some(v)), v.key()) }
            12 => { let v = bits as i32; (Time32Second(Some(v)), v.key()) } 13 => { let v = bits as i32; (Time32Millisecond(Some(v)), v.key()) }
            14 => { let v = bits as i64; (Time64Microsecond(Some(v)), v.key()) } 15 => { let v = bits as i64; (Time64Nanosecond(Some(v)), v.key()) }
            16 => { let v = bits as i64; (TimestampSecond(Some(v), None), v.key()) }
            _ => { let v = bits as i64; (TimestampNanosecond(Some(v), None), v.key()) }
        }
    }
    fn null_of(kind: u8) -> ScalarValue {
        use ScalarValue::*;
        match kind % 4 { 0 => Null, 1 => Int32(None), 2 => Float64(None), _ => TimestampSecond(None, None) }
    }
    /// a literal of the column's type: the row's own value, some other value of that type, or NULL
    fn any_literal(kind: u8, row_bits: u64) -> (ScalarValue, bool) {
        match kani::any::<u8>() % 3 {
            0 => (any_value(kind, row_bits).0, true),
            1 => { let b: u64 = kani::any(); let (v, k) = any_value(kind, b); (v, k == any_value(kind, row_bits).1) }
            _ => (null_of(kani::any()), false),
        }
    }

    /// C20: a zone that holds a row with value v (so v was inserted into the zone's filter) -- or a NULL row (so has_null
    /// is set) -- is never skipped by a query that the row satisfies: IS NULL, = literal, IN (three literals, any of them
    /// possibly NULL, in any order).  Equality of values = equality of the bytes they are hashed by.
    #[kani::proof]
    #[kani::unwind(5)]
    #[kani::stub(alloc::fmt::format, fmt_stub)]
    fn zone_with_a_matching_row_is_not_skipped() {
        let kind: u8 = kani::any();
        let row_is_null: bool = kani::any();
        let row_bits: u64 = kani::any();
        let (_, row_key) = any_value(kind, row_bits);
        let has_null: bool = kani::any();
        if row_is_null { kani::assume(has_null); }
        let block = BloomFilterStatistics { fragment_id: kani::any(), zone_start: kani::any(), zone_length: kani::any(), has_null,
            bloom_filter: Sbbf { inserted: if row_is_null { None } else { Some(row_key) } } };
        let which: u8 = kani::any::<u8>() % 3;
        let (q, matches) = match which {
            0 => (BloomFilterQuery::IsNull(), row_is_null),
            1 => { let (l, same) = any_literal(kind, row_bits); (BloomFilterQuery::Equals(l), same && !row_is_null) }
            _ => { let (a, sa) = any_literal(kind, row_bits); let (b, sb) = any_literal(kind, row_bits); let (c, sc) = any_literal(kind, row_bits);
                   let n: usize = kani::any(); kani::assume(n <= 3);
                   let m = !row_is_null && ((n >= 1 && sa) || (n >= 2 && sb) || (n >= 3 && sc));
                   (BloomFilterQuery::IsIn(Lits { items: [a, b, c], n }), m) }
        };
        let r = BloomFilterIndex.evaluate_block_against_query(&block, &q);
        if matches { assert!(matches!(r, Ok(true)), "zone holding a matching row is skipped"); }
        assert!(r.is_ok(), "accepted literal types never error");
        kani::cover!(matches && which == 0);
        kani::cover!(matches && which == 1);
        kani::cover!(matches && which == 2);
        kani::cover!(matches!(r, Ok(false)));
    }
}
