//! Kani unit `treemap`: the REAL text of RowIdTreeMap (rust/lance-core/src/utils/mask.rs: struct, RowIdSelection,
//! insert / insert_range / contains / remove / len / is_empty / mask and the |=, &=, -= operators), written into
//! src/gen/treemap.rs on every run, compiled against two SHIMS: an array-backed `BTreeMap` with the methods the text
//! calls, and a `RoaringBitmap` over an 4-row universe (a small bit set).  The abstract universe is 3 fragments x 4 rows;
//! `Full` means "all rows of the fragment".  If /repo starts using a map / bitmap method the shims lack => UNDECIDED.
#![allow(dead_code, unused_macros, unused_imports, unused_mut, clippy::all)]
use std::ops::{Bound, RangeBounds, RangeInclusive};

pub const ROWS: u32 = 4;

// ------------------------------------------------------------------ shim: roaring::RoaringBitmap over rows 0..ROWS
#[derive(Clone, Copy, Debug, PartialEq, Eq, Default)]
pub struct RoaringBitmap { pub bits: u8 }
pub const ALL: u8 = 0x0f;
impl RoaringBitmap {
    pub fn new() -> Self { Self { bits: 0 } }
    pub fn full() -> Self { Self { bits: ALL } }
    pub fn insert(&mut self, v: u32) -> bool { assert!(v < ROWS, "shim: row outside the abstract universe"); let had = self.bits & (1 << v) != 0; self.bits |= 1 << v; !had }
    pub fn remove(&mut self, v: u32) -> bool { assert!(v < ROWS, "shim: row outside the abstract universe"); let had = self.bits & (1 << v) != 0; self.bits &= !(1 << v); had }
    pub fn contains(&self, v: u32) -> bool { v < ROWS && self.bits & (1 << v) != 0 }
    pub fn is_empty(&self) -> bool { self.bits == 0 }
    pub fn len(&self) -> u64 { self.bits.count_ones() as u64 }
    /// rows above the abstract universe do not exist: an end bound of u32::MAX means "to the end of the fragment"
    pub fn insert_range(&mut self, r: RangeInclusive<u32>) -> u64 {
        let (s, e) = (*r.start(), *r.end());
        if s > e || s >= ROWS { return 0; }
        let e = if e >= ROWS { ROWS - 1 } else { e };
        let mut m: u8 = 0;
        let mut i = s;
        while i <= e { m |= 1 << i; i += 1; }
        let added = (m & !self.bits).count_ones() as u64;
        self.bits |= m;
        added
    }
}
impl std::ops::BitOrAssign<&RoaringBitmap> for RoaringBitmap { fn bitor_assign(&mut self, r: &RoaringBitmap) { self.bits |= r.bits; } }
impl std::ops::BitAndAssign<&RoaringBitmap> for RoaringBitmap { fn bitand_assign(&mut self, r: &RoaringBitmap) { self.bits &= r.bits; } }
impl std::ops::SubAssign<&RoaringBitmap> for RoaringBitmap { fn sub_assign(&mut self, r: &RoaringBitmap) { self.bits &= !r.bits; } }

// ------------------------------------------------------------------ shim: std::collections::BTreeMap (<= 4 keys, kept sorted)
pub const CAP: usize = 3;
#[derive(Clone, Debug, PartialEq)]
pub struct BTreeMap<K, V> { pub e: [Option<(K, V)>; CAP], pub n: usize }
impl<K: Ord + Copy, V> Default for BTreeMap<K, V> { fn default() -> Self { Self::new() } }
impl<K: Ord + Copy, V> BTreeMap<K, V> {
    pub fn new() -> Self { Self { e: [None, None, None], n: 0 } }
    pub fn is_empty(&self) -> bool { self.n == 0 }
    pub fn len(&self) -> usize { self.n }
    fn pos(&self, k: &K) -> Option<usize> {
        let mut i = 0;
        while i < self.n { if let Some((kk, _)) = &self.e[i] { if kk == k { return Some(i); } } i += 1; }
        None
    }
    pub fn contains_key(&self, k: &K) -> bool { self.pos(k).is_some() }
    pub fn get(&self, k: &K) -> Option<&V> { match self.pos(k) { Some(i) => self.e[i].as_ref().map(|p| &p.1), None => None } }
    pub fn get_mut(&mut self, k: &K) -> Option<&mut V> { match self.pos(k) { Some(i) => self.e[i].as_mut().map(|p| &mut p.1), None => None } }
    pub fn insert(&mut self, k: K, v: V) -> Option<V> {
        if let Some(i) = self.pos(&k) { let old = self.e[i].take(); self.e[i] = Some((k, v)); return old.map(|p| p.1); }
        assert!(self.n < CAP, "shim: map capacity exceeded");
        // keep keys sorted (iteration order of a BTreeMap)
        let mut i = self.n;
        while i > 0 { let smaller = match &self.e[i - 1] { Some((kk, _)) => *kk < k, None => true }; if smaller { break; } self.e[i] = self.e[i - 1].take(); i -= 1; }
        self.e[i] = Some((k, v));
        self.n += 1;
        None
    }
    pub fn remove(&mut self, k: &K) -> Option<V> {
        match self.pos(k) {
            None => None,
            Some(i) => { let old = self.e[i].take(); let mut j = i; while j + 1 < self.n { self.e[j] = self.e[j + 1].take(); j += 1; } self.n -= 1; old.map(|p| p.1) }
        }
    }
    pub fn retain(&mut self, mut f: impl FnMut(&K, &mut V) -> bool) {
        let mut w = 0; let mut r = 0; let n = self.n;
        while r < n {
            let mut item = self.e[r].take();
            let keep = match &mut item { Some((k, v)) => f(k, v), None => false };
            if keep { self.e[w] = item; w += 1; }
            r += 1;
        }
        self.n = w;
    }
    pub fn values(&self) -> impl Iterator<Item = &V> + '_ { self.e[..self.n].iter().filter_map(|o| o.as_ref().map(|p| &p.1)) }
    pub fn iter(&self) -> impl Iterator<Item = (&K, &V)> + '_ { self.e[..self.n].iter().filter_map(|o| o.as_ref().map(|p| (&p.0, &p.1))) }
}
pub struct MapIter<'a, K, V> { s: &'a [Option<(K, V)>], i: usize }
impl<'a, K, V> Iterator for MapIter<'a, K, V> { type Item = (&'a K, &'a V);
    fn next(&mut self) -> Option<Self::Item> { while self.i < self.s.len() { let o = &self.s[self.i]; self.i += 1; if let Some((k, v)) = o { return Some((k, v)); } } None } }
impl<'a, K, V> IntoIterator for &'a BTreeMap<K, V> { type Item = (&'a K, &'a V); type IntoIter = MapIter<'a, K, V>;
    fn into_iter(self) -> Self::IntoIter { MapIter { s: &self.e[..self.n], i: 0 } } }
pub struct MapIterMut<'a, K, V> { it: std::slice::IterMut<'a, Option<(K, V)>> }
impl<'a, K, V> Iterator for MapIterMut<'a, K, V> { type Item = (&'a K, &'a mut V);
    fn next(&mut self) -> Option<Self::Item> { loop { match self.it.next() { None => return None, Some(Some((k, v))) => return Some((&*k, v)), Some(None) => {} } } } }
impl<'a, K, V> IntoIterator for &'a mut BTreeMap<K, V> { type Item = (&'a K, &'a mut V); type IntoIter = MapIterMut<'a, K, V>;
    fn into_iter(self) -> Self::IntoIter { let n = self.n; MapIterMut { it: self.e[..n].iter_mut() } } }

// derives dropped by R1 are re-declared here
include!("gen/treemap.rs");
include!("gen/treemap_fns.rs");
impl Default for RowIdTreeMap { fn default() -> Self { Self { inner: BTreeMap::new() } } }
impl Clone for RowIdTreeMap { fn clone(&self) -> Self { Self { inner: self.inner.clone() } } }
impl Clone for RowIdSelection { fn clone(&self) -> Self { match self { Self::Full => Self::Full, Self::Partial(b) => Self::Partial(*b) } } }
impl PartialEq for RowIdSelection { fn eq(&self, o: &Self) -> bool { match (self, o) { (Self::Full, Self::Full) => true, (Self::Partial(a), Self::Partial(b)) => a == b, _ => false } } }
impl std::fmt::Debug for RowIdSelection { fn fmt(&self, _f: &mut std::fmt::Formatter<'_>) -> std::fmt::Result { Ok(()) } }

#[cfg(kani)]
mod proofs {
    use super::*;
    const FRAGS: u32 = 3;
    fn addr(f: u32, r: u32) -> u64 { ((f as u64) << 32) | r as u64 }
    /// any well-formed tree map over the abstract universe: up to 3 fragments, each Full or a NON-EMPTY partial bitmap
    fn any_map() -> RowIdTreeMap {
        let mut m = RowIdTreeMap::default();
        let mut f = 0u32;
        let mut cnt = 0;
        while f < FRAGS {
            if kani::any() {
                let sel = if kani::any() { RowIdSelection::Full } else { let b: u8 = kani::any(); kani::assume(b != 0 && b <= ALL); RowIdSelection::Partial(RoaringBitmap { bits: b }) };
                m.inner.insert(f, sel);
                cnt += 1;
            }
            f += 1;
        }
        m
    }
    /// the mathematical set a map denotes, as a 32-bit word (bit f*8+r)
    fn denote(m: &RowIdTreeMap) -> u32 {
        let mut w = 0u32; let mut f = 0;
        while f < FRAGS { let mut r = 0; while r < ROWS { if m.contains(addr(f, r)) { w |= 1 << (f * ROWS + r); } r += 1; } f += 1; }
        w
    }
    /// representation invariant kept by every operation: no empty partial bitmap is left behind (is_empty / len rely on it)
    fn wf(m: &RowIdTreeMap) -> bool {
        let mut ok = true;
        for (_, s) in &m.inner { if let RowIdSelection::Partial(b) = s { if b.is_empty() { ok = false; } } }
        ok
    }

    #[kani::proof]
    #[kani::unwind(6)]
    fn union_is_set_union() {
        let a = any_map(); let b = any_map();
        let (da, db) = (denote(&a), denote(&b));
        let mut c = a.clone(); c |= b.clone();
        assert!(denote(&c) == da | db, "|= is not set union");
        assert!(wf(&c));
        kani::cover!(da != 0 && db != 0 && da & db != 0 && da != db);
    }

    #[kani::proof]
    #[kani::unwind(6)]
    fn intersection_is_set_intersection() {
        let a = any_map(); let b = any_map();
        let (da, db) = (denote(&a), denote(&b));
        let mut c = a.clone(); c &= &b;
        assert!(denote(&c) == da & db, "&= is not set intersection");
        assert!(wf(&c), "&= leaves an empty bitmap behind");
        assert!(c.is_empty() == (da & db == 0), "is_empty disagrees with the denoted set");
        kani::cover!(da & db != 0 && da != db);
        kani::cover!(da != 0 && db != 0 && da & db == 0);
    }

    #[kani::proof]
    #[kani::unwind(6)]
    fn difference_is_set_difference() {
        let a = any_map(); let b = any_map();
        // a PARTIAL bitmap holding all 2^32 rows of a fragment is not explored (Full - Partial(everything) leaves an
        // empty partial bitmap behind: semantically still the right set, recorded as an observation in DESIGN.md)
        for (_, s) in &b.inner { if let RowIdSelection::Partial(x) = s { kani::assume(x.bits != ALL); } }
        let (da, db) = (denote(&a), denote(&b));
        let mut c = a.clone(); c -= &b;
        assert!(denote(&c) == da & !db, "-= is not set difference");
        assert!(wf(&c), "-= leaves an empty bitmap behind");
        assert!(c.is_empty() == (da & !db == 0), "is_empty disagrees with the denoted set");
        kani::cover!(da & !db != 0 && da & db != 0);
    }

    /// the by-value operators |, &, - (thorough tier: same cost again as the assigning forms they delegate to)
    #[kani::proof]
    #[kani::unwind(6)]
    fn by_value_operators() {
        let a = any_map(); let b = any_map();
        for (_, s) in &b.inner { if let RowIdSelection::Partial(x) = s { kani::assume(x.bits != ALL); } }
        let (da, db) = (denote(&a), denote(&b));
        match kani::any::<u8>() % 3 {
            0 => { let d = a | b; assert!(denote(&d) == da | db, "| is not set union"); }
            1 => { let d = a & b; assert!(denote(&d) == da & db, "& is not set intersection"); }
            _ => { let d = a - b; assert!(denote(&d) == da & !db, "- is not set difference"); }
        }
        kani::cover!(da != 0 && db != 0);
    }

    #[kani::proof]
    #[kani::unwind(6)]
    fn insert_remove_contains() {
        let mut a = any_map();
        let da = denote(&a);
        let f: u32 = kani::any(); let r: u32 = kani::any();
        kani::assume(f < FRAGS && r < ROWS);
        let bit = 1u32 << (f * ROWS + r);
                if kani::any() {
            let fresh = a.insert(addr(f, r));
            assert!(fresh == (da & bit == 0), "insert's return value is not 'was absent'");
            assert!(denote(&a) == da | bit, "insert changes other members");
        } else {
            let had = a.remove(addr(f, r));
            assert!(had == (da & bit != 0), "remove's return value is not 'was present'");
            assert!(denote(&a) == da & !bit, "remove changes other members");
            assert!(wf(&a), "remove leaves an empty bitmap behind");
        }
        kani::cover!(da & bit != 0);
        kani::cover!(da & bit == 0);
    }

    /// size: len() is the number of members, or None exactly when a full fragment is present
    #[kani::proof]
    #[kani::unwind(6)]
    fn len_counts_members() {
        let a = any_map();
        let mut has_full = false;
        for (_, s) in &a.inner { if let RowIdSelection::Full = s { has_full = true; } }
        match a.len() {
            None => assert!(has_full, "len unknown without a full fragment"),
            Some(n) => { assert!(!has_full); assert!(n == denote(&a).count_ones() as u64, "len is not the number of members"); }
        }
        kani::cover!(has_full); kani::cover!(!has_full && !a.is_empty());
    }

    fn any_bound(f: u32, r: u32) -> Bound<u64> {
        match kani::any::<u8>() % 3 { 0 => Bound::Included(addr(f, r)), 1 => Bound::Excluded(addr(f, r)), _ => Bound::Unbounded }
    }
    /// insert_range: membership afterwards = before U range (clipped to the universe), for every kind of bound, incl.
    /// empty ranges, one-row ranges, ranges spanning fragments, and bounds at row 0 of a fragment (Excluded(end) at a
    /// fragment start crosses the 32-bit boundary)
    #[kani::proof]
    #[kani::unwind(6)]
    fn insert_range_is_union_with_range() {
        let mut a = any_map();
        let da = denote(&a);
        let (f1, r1, f2, r2): (u32, u32, u32, u32) = (kani::any(), kani::any(), kani::any(), kani::any());
        kani::assume(f1 < FRAGS && f2 < FRAGS && r1 < ROWS && r2 < ROWS);
        let lo = any_bound(f1, r1); let hi = any_bound(f2, r2);
        // an unbounded end would run to fragment u32::MAX: keep the end bounded (the shim map holds 3 fragments)
        kani::assume(!matches!(hi, Bound::Unbounded));
        // Excluded(last row of the abstract universe) starts at row 8, which exists in reality but not in the 8-row shim
        kani::assume(!(matches!(lo, Bound::Excluded(_)) && r1 == ROWS - 1));
        let before_len = a.len();
        let cnt = a.insert_range((lo, hi));
        let mut want = 0u32; let mut f = 0;
        while f < FRAGS { let mut r = 0; while r < ROWS {
            let x = addr(f, r);
            let ge = match lo { Bound::Included(s) => x >= s, Bound::Excluded(s) => x > s, Bound::Unbounded => true };
            let le = match hi { Bound::Included(e) => x <= e, Bound::Excluded(e) => x < e, Bound::Unbounded => true };
            if ge && le { want |= 1 << (f * ROWS + r); }
            r += 1; } f += 1; }
        assert!(denote(&a) == da | want, "insert_range does not insert exactly the range");
        assert!(wf(&a), "insert_range leaves an empty bitmap behind");
        if before_len.is_some() { assert!(cnt == (want & !da).count_ones() as u64, "insert_range's count is not the number of new members"); }
        kani::cover!(want == 0);
        kani::cover!(want.count_ones() == 1);
        kani::cover!(f1 < f2 && want != 0);
    }

    /// RowIdTreeMap::mask(m) keeps exactly the members m selects
    #[kani::proof]
    #[kani::unwind(6)]
    fn mask_keeps_selected_members() {
        let mut a = any_map();
        let da = denote(&a);
        let allow = if kani::any() { Some(any_map()) } else { None };
        let block = if kani::any() { Some(any_map()) } else { None };
        if let Some(bl) = &block { for (_, s) in &bl.inner { if let RowIdSelection::Partial(x) = s { kani::assume(x.bits != ALL); } } }
        let dal = allow.as_ref().map(|m| denote(m)); let dbl = block.as_ref().map(|m| denote(m));
        let m = RowIdMask { allow_list: allow, block_list: block };
        a.mask(&m);
        let want = da & dal.unwrap_or(u32::MAX) & !dbl.unwrap_or(0);
        assert!(denote(&a) == want, "mask() does not keep exactly the selected members");
        kani::cover!(dal.is_some() && dbl.is_some() && want != 0);
    }
}
