//! Kani unit `maxfrag`: the REAL text of `Manifest::update_max_fragment_id` and `Manifest::max_fragment_id`
//! (rust/lance-table/src/format/manifest.rs) against a two-field shim Manifest.
#![allow(dead_code, unused_macros, unused_imports, clippy::all)]
use std::sync::Arc;
pub struct Fragment { pub id: u64 }
/// stands for Arc<Vec<Fragment>>: a fixed array + length exposing the two methods the text calls (is_empty, iter);
/// CBMC models heap Vecs byte-wise, which made the Vec version 50x slower (measured)
pub struct Frags { pub items: [Fragment; 8], pub n: usize }
impl Frags {
    pub fn is_empty(&self) -> bool { self.n == 0 }
    pub fn iter(&self) -> std::slice::Iter<'_, Fragment> { self.items[..self.n].iter() }
}
pub struct Manifest { pub fragments: Frags, pub max_fragment_id: Option<u32> }
include!("gen/maxfrag.rs");

#[cfg(kani)]
mod proofs {
    use super::*;
    /// C05 clause "fragment ids ... not above the recorded maximum" + the high-water mark never moves down
    #[kani::proof]
    #[kani::unwind(10)]
    fn max_fragment_id_is_a_high_water_mark() {
        let n: usize = kani::any(); kani::assume(n <= 8);
        let ids: [u32; 8] = kani::any();
        let f = |i: usize| Fragment { id: ids[i] as u64 };
        let old: Option<u32> = if kani::any() { Some(kani::any()) } else { None };
        let mut m = Manifest { fragments: Frags { items: [f(0), f(1), f(2), f(3), f(4), f(5), f(6), f(7)], n }, max_fragment_id: old };
        m.update_max_fragment_id();
        if n == 0 {
            assert!(m.max_fragment_id == old, "empty table changes the recorded maximum");
        } else {
            let mx = m.max_fragment_id.unwrap();
            for i in 0..8 { assert!(i >= n || mx >= ids[i], "a fragment id is above the recorded maximum"); }
            if let Some(o) = old { assert!(mx >= o, "recorded maximum moved down (ids could be reused)"); }
            assert!(Some(mx) == old || (0..8).any(|i| i < n && mx == ids[i]), "recorded maximum is an invented number");
        }
        // reader side agrees with what was recorded
        if m.max_fragment_id.is_some() { assert!(m.max_fragment_id() == m.max_fragment_id.map(|x| x as u64)); }
        else { assert!(m.max_fragment_id() == None); }
        kani::cover!(n == 8 && m.max_fragment_id != old);
        kani::cover!(n == 8 && m.max_fragment_id == old);
    }
}
