//! Kani unit `maxfrag`: the REAL text of `Manifest::update_max_fragment_id` and `Manifest::max_fragment_id`
//! (rust/lance-table/src/format/manifest.rs) against a two-field shim Manifest.
#![allow(dead_code, unused_macros, unused_imports, clippy::all)]
use std::sync::Arc;
pub struct Fragment { pub id: u64 }
pub struct Manifest { pub fragments: Arc<Vec<Fragment>>, pub max_fragment_id: Option<u32> }
include!("gen/maxfrag.rs");

#[cfg(kani)]
mod proofs {
    use super::*;
    /// C05 clause "fragment ids ... not above the recorded maximum" + the high-water mark never moves down
    #[kani::proof]
    #[kani::unwind(5)]
    fn max_fragment_id_is_a_high_water_mark() {
        let n: usize = kani::any(); kani::assume(n <= 3);
        let ids: [u32; 3] = kani::any();
        let mut v = Vec::new();
        for i in 0..3 { if i < n { v.push(Fragment { id: ids[i] as u64 }); } }
        let old: Option<u32> = if kani::any() { Some(kani::any()) } else { None };
        let mut m = Manifest { fragments: Arc::new(v), max_fragment_id: old };
        m.update_max_fragment_id();
        if n == 0 {
            assert!(m.max_fragment_id == old, "empty table changes the recorded maximum");
        } else {
            let mx = m.max_fragment_id.unwrap();
            for i in 0..3 { assert!(i >= n || mx >= ids[i], "a fragment id is above the recorded maximum"); }
            if let Some(o) = old { assert!(mx >= o, "recorded maximum moved down (ids could be reused)"); }
            assert!(Some(mx) == old || (0..3).any(|i| i < n && mx == ids[i]), "recorded maximum is an invented number");
        }
        // reader side agrees with what was recorded
        if m.max_fragment_id.is_some() { assert!(m.max_fragment_id() == m.max_fragment_id.map(|x| x as u64)); }
        else { assert!(m.max_fragment_id() == None); }
        kani::cover!(n == 3 && m.max_fragment_id != old);
        kani::cover!(n == 3 && m.max_fragment_id == old);
    }
}
