//! Kani unit `take_addrs`: the REAL text of `check_row_addrs` and `struct RowAddressStats` (rust/lance/src/dataset/take.rs):
//! the classification of a requested key list that decides whether `take` may hand the addresses to the readers as
//! they are (sorted = strictly increasing, so no duplicates) or must sort / de-duplicate / re-order first.
#![allow(dead_code, unused_macros, unused_imports, clippy::all)]
include!("gen/take.rs");

#[cfg(kani)]
mod proofs {
    use super::*;
    /// C15 ("in the requested order (duplicates allowed)"): `sorted` must mean STRICTLY increasing -- a list with an
    /// adjacent duplicate or a descent is not sorted -- and `contiguous` means consecutive addresses of one fragment.
    #[kani::proof]
    #[kani::unwind(10)]
    fn classification_of_key_lists() {
        let a: [u64; 8] = kani::any();
        let n: usize = kani::any(); kani::assume(n <= 8);
        // the tombstone address u64::MAX is never a key (last_offset + 1 would overflow)
        for i in 0..8 { kani::assume(a[i] < u64::MAX); }
        let s = check_row_addrs(&a[..n]);
        let mut strictly_increasing = true; let mut consecutive_same_fragment = true;
        for i in 1..8 { if i < n {
            if !(a[i - 1] < a[i]) { strictly_increasing = false; }
            if !(a[i] == a[i - 1] + 1 && (a[i] >> 32) == (a[0] >> 32)) { consecutive_same_fragment = false; }
        } }
        assert!(s.sorted == strictly_increasing, "`sorted` is not 'strictly increasing' (duplicates / descents must take the slow path)");
        assert!(s.contiguous == consecutive_same_fragment, "`contiguous` is not 'consecutive addresses of one fragment'");
        kani::cover!(n == 8 && s.sorted && !s.contiguous);
        kani::cover!(n == 8 && s.contiguous);
        kani::cover!(n >= 2 && !s.sorted);
    }
}
