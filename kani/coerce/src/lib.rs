//! Kani unit `coerce`: the REAL text of `safe_coerce_scalar` (lance-datafusion/src/expr.rs), written by the
//! driver into src/gen/coerce.rs on every run, compiled against a shim of the arrow / datafusion types it
//! names.  If /repo starts naming a variant the shim lacks, this crate stops compiling => UNDECIDED.
#![allow(dead_code, unused_imports, clippy::all)]
use std::sync::Arc;

// ---- shim of arrow_schema::{DataType, TimeUnit}, datafusion_common::ScalarValue, arrow cast ----
#[derive(Clone, Debug, PartialEq)]
pub enum TimeUnit { Second, Millisecond, Microsecond, Nanosecond }
#[derive(Clone, Debug, PartialEq)]
pub struct FieldRef;
#[derive(Clone, Debug, PartialEq)]
pub enum DataType {
    Null, Boolean, Int8, Int16, Int32, Int64, UInt8, UInt16, UInt32, UInt64,
    Float16, Float32, Float64, Utf8, LargeUtf8, Binary, LargeBinary, FixedSizeBinary(i32),
    Date32, Date64, Time32(TimeUnit), Time64(TimeUnit), Timestamp(TimeUnit, Option<Arc<str>>),
    List(FieldRef), LargeList(FieldRef), FixedSizeList(FieldRef, i32),
    Decimal128(u8, i8), Decimal256(u8, i8),
}
pub trait Array { fn as_list(&self) -> &ListArr; fn as_fixed_size_list(&self) -> &ListArr; }
#[derive(Clone, Debug, PartialEq)]
pub struct ListArr;
impl Array for ListArr { fn as_list(&self) -> &ListArr { self } fn as_fixed_size_list(&self) -> &ListArr { self } }
pub type ArrayRef = Arc<dyn Array>;
pub trait AsArray { fn as_list(&self) -> &ListArr; fn as_fixed_size_list(&self) -> &ListArr; }
impl AsArray for ArrayRef { fn as_list(&self) -> &ListArr { (**self).as_list() } fn as_fixed_size_list(&self) -> &ListArr { (**self).as_fixed_size_list() } }
pub fn cast(a: &ArrayRef, _ty: &DataType) -> Result<ArrayRef, ()> { Ok(a.clone()) }

#[derive(Clone, Debug, PartialEq)]
pub enum ScalarValue {
    Null, Boolean(Option<bool>),
    Int8(Option<i8>), Int16(Option<i16>), Int32(Option<i32>), Int64(Option<i64>),
    UInt8(Option<u8>), UInt16(Option<u16>), UInt32(Option<u32>), UInt64(Option<u64>),
    Float32(Option<f32>), Float64(Option<f64>),
    Utf8(Option<String>), LargeUtf8(Option<String>),
    Binary(Option<Vec<u8>>), LargeBinary(Option<Vec<u8>>), FixedSizeBinary(i32, Option<Vec<u8>>),
    List(Arc<ListArr>), LargeList(Arc<ListArr>), FixedSizeList(Arc<ListArr>),
    Date32(Option<i32>), Date64(Option<i64>),
    Time32Second(Option<i32>), Time32Millisecond(Option<i32>),
    Time64Microsecond(Option<i64>), Time64Nanosecond(Option<i64>),
    TimestampSecond(Option<i64>, Option<Arc<str>>), TimestampMillisecond(Option<i64>, Option<Arc<str>>),
    TimestampMicrosecond(Option<i64>, Option<Arc<str>>), TimestampNanosecond(Option<i64>, Option<Arc<str>>),
}

include!("gen/coerce.rs");

#[cfg(kani)]
mod proofs {
    use super::*;

    // ---------------------------------------------------------------- integers
    // Contract (from C16/C19: "literal coercion as the column type dictates", "boundary and out-of-range
    // literals"): an integer literal is converted to a value of the target type with the SAME mathematical
    // value, or rejected (None) exactly when the target type cannot represent it -- never wrapped.
    macro_rules! int_target {
        ($v:expr, $r:expr, $variant:ident, $t:ty) => {{
            let wide = $v as i128;
            match $r {
                Some(ScalarValue::$variant(Some(x))) => {
                    assert!(x as i128 == wide, "value changed by coercion");
                }
                None => assert!(wide < <$t>::MIN as i128 || wide > <$t>::MAX as i128, "representable literal rejected"),
                _ => assert!(false, "wrong variant"),
            }
        }};
    }
    macro_rules! int_source {
        ($name:ident, $fname:ident, $src:ident, $s:ty) => {
            #[kani::proof]
            fn $name() {
                let v: $s = kani::any();
                let val = ScalarValue::$src(Some(v));
                int_target!(v, safe_coerce_scalar(&val, &DataType::Int8), Int8, i8);
                int_target!(v, safe_coerce_scalar(&val, &DataType::Int16), Int16, i16);
                int_target!(v, safe_coerce_scalar(&val, &DataType::Int32), Int32, i32);
                int_target!(v, safe_coerce_scalar(&val, &DataType::Int64), Int64, i64);
                int_target!(v, safe_coerce_scalar(&val, &DataType::UInt8), UInt8, u8);
                int_target!(v, safe_coerce_scalar(&val, &DataType::UInt16), UInt16, u16);
                int_target!(v, safe_coerce_scalar(&val, &DataType::UInt32), UInt32, u32);
                int_target!(v, safe_coerce_scalar(&val, &DataType::UInt64), UInt64, u64);
                // an integer literal never becomes a string / bool / date
                assert!(safe_coerce_scalar(&val, &DataType::Utf8).is_none());
                assert!(safe_coerce_scalar(&val, &DataType::Boolean).is_none());
                assert!(safe_coerce_scalar(&val, &DataType::Date32).is_none());
                kani::cover!(safe_coerce_scalar(&val, &DataType::Int8).is_none()
                    || safe_coerce_scalar(&val, &DataType::UInt8).is_none(), "a rejection is reachable");
                kani::cover!(safe_coerce_scalar(&val, &DataType::Int8).is_some(), "an acceptance is reachable");
            }
            #[kani::proof]
            fn $fname() {
                let v: $s = kani::any();
                let val = ScalarValue::$src(Some(v));
                // int -> float is the IEEE nearest conversion (`as`), never rejected
                match safe_coerce_scalar(&val, &DataType::Float32) {
                    Some(ScalarValue::Float32(Some(x))) => assert!(x.to_bits() == (v as f32).to_bits()),
                    _ => assert!(false),
                }
                match safe_coerce_scalar(&val, &DataType::Float64) {
                    Some(ScalarValue::Float64(Some(x))) => assert!(x.to_bits() == (v as f64).to_bits()),
                    _ => assert!(false),
                }
                kani::cover!(true);
            }
        };
    }
    int_source!(coerce_from_i8, coerce_i8_to_float, Int8, i8);
    int_source!(coerce_from_i16, coerce_i16_to_float, Int16, i16);
    int_source!(coerce_from_i32, coerce_i32_to_float, Int32, i32);
    int_source!(coerce_from_i64, coerce_i64_to_float, Int64, i64);
    int_source!(coerce_from_u8, coerce_u8_to_float, UInt8, u8);
    int_source!(coerce_from_u16, coerce_u16_to_float, UInt16, u16);
    int_source!(coerce_from_u32, coerce_u32_to_float, UInt32, u32);
    int_source!(coerce_from_u64, coerce_u64_to_float, UInt64, u64);

    // ---------------------------------------------------------------- floats
    #[kani::proof]
    fn coerce_floats() {
        let a: f32 = kani::any();
        let b: f64 = kani::any();
        match safe_coerce_scalar(&ScalarValue::Float32(Some(a)), &DataType::Float64) {
            Some(ScalarValue::Float64(Some(x))) => assert!(x.to_bits() == f64::from(a).to_bits()),
            _ => assert!(false),
        }
        match safe_coerce_scalar(&ScalarValue::Float32(Some(a)), &DataType::Float32) {
            Some(ScalarValue::Float32(Some(x))) => assert!(x.to_bits() == a.to_bits()),
            _ => assert!(false),
        }
        match safe_coerce_scalar(&ScalarValue::Float64(Some(b)), &DataType::Float32) {
            Some(ScalarValue::Float32(Some(x))) => assert!(x.to_bits() == (b as f32).to_bits()),
            _ => assert!(false),
        }
        match safe_coerce_scalar(&ScalarValue::Float64(Some(b)), &DataType::Float64) {
            Some(ScalarValue::Float64(Some(x))) => assert!(x.to_bits() == b.to_bits()),
            _ => assert!(false),
        }
        // a float literal is never silently turned into an integer
        assert!(safe_coerce_scalar(&ScalarValue::Float64(Some(b)), &DataType::Int64).is_none());
        assert!(safe_coerce_scalar(&ScalarValue::Float32(Some(a)), &DataType::Int32).is_none());
        kani::cover!(a.is_nan());
    }

    // ---------------------------------------------------------------- timestamps
    fn mk_ts(u: &TimeUnit, v: i64) -> ScalarValue {
        match u {
            TimeUnit::Second => ScalarValue::TimestampSecond(Some(v), None),
            TimeUnit::Millisecond => ScalarValue::TimestampMillisecond(Some(v), None),
            TimeUnit::Microsecond => ScalarValue::TimestampMicrosecond(Some(v), None),
            TimeUnit::Nanosecond => ScalarValue::TimestampNanosecond(Some(v), None),
        }
    }
    fn ts_parts(s: &ScalarValue) -> Option<(TimeUnit, i64, bool)> {
        match s {
            ScalarValue::TimestampSecond(Some(v), tz) => Some((TimeUnit::Second, *v, tz.is_none())),
            ScalarValue::TimestampMillisecond(Some(v), tz) => Some((TimeUnit::Millisecond, *v, tz.is_none())),
            ScalarValue::TimestampMicrosecond(Some(v), tz) => Some((TimeUnit::Microsecond, *v, tz.is_none())),
            ScalarValue::TimestampNanosecond(Some(v), tz) => Some((TimeUnit::Nanosecond, *v, tz.is_none())),
            _ => None,
        }
    }
    /// Contract: converting a timestamp literal between units multiplies exactly (None iff the product does not
    /// fit in i64 -- never wrapped; `checked_mul` IS that definition) or divides truncating toward zero; the
    /// result carries the target unit.  `up`/`down` are the literal scale factors of the (from, to) pair.
    macro_rules! ts_harness {
        ($name:ident, $from:ident, $to:ident, up $k:literal) => {
            #[kani::proof]
            fn $name() {
                let v: i64 = kani::any();
                let r = safe_coerce_scalar(&mk_ts(&TimeUnit::$from, v), &DataType::Timestamp(TimeUnit::$to, None));
                match (r, v.checked_mul($k)) {
                    (Some(s), Some(exact)) => {
                        let (u, x, tz_none) = ts_parts(&s).unwrap();
                        assert!(u == TimeUnit::$to, "wrong unit");
                        assert!(x == exact, "up-scaled timestamp is not the exact product");
                        assert!(tz_none);
                    }
                    (None, None) => {}
                    (Some(_), None) => assert!(false, "overflowing product accepted (wrapped)"),
                    (None, Some(_)) => assert!(false, "representable timestamp rejected"),
                }
                kani::cover!(v.checked_mul($k).is_some() && v != 0);
            }
        };
        ($name:ident, $from:ident, $to:ident, down $k:literal) => {
            #[kani::proof]
            fn $name() {
                let v: i64 = kani::any();
                let r = safe_coerce_scalar(&mk_ts(&TimeUnit::$from, v), &DataType::Timestamp(TimeUnit::$to, None));
                match r {
                    Some(s) => {
                        let (u, x, _) = ts_parts(&s).unwrap();
                        assert!(u == TimeUnit::$to, "wrong unit");
                        assert!(x == v / $k, "down-scaled timestamp is not the truncating quotient");
                    }
                    None => assert!(false, "down-scaling never fails"),
                }
                kani::cover!(v < 0);
            }
        };
    }
    ts_harness!(ts_s_to_s, Second, Second, up 1);
    ts_harness!(ts_s_to_ms, Second, Millisecond, up 1000);
    ts_harness!(ts_s_to_us, Second, Microsecond, up 1000000);
    ts_harness!(ts_s_to_ns, Second, Nanosecond, up 1000000000);
    ts_harness!(ts_ms_to_s, Millisecond, Second, down 1000);
    ts_harness!(ts_ms_to_ms, Millisecond, Millisecond, up 1);
    ts_harness!(ts_ms_to_us, Millisecond, Microsecond, up 1000);
    ts_harness!(ts_ms_to_ns, Millisecond, Nanosecond, up 1000000);
    ts_harness!(ts_us_to_s, Microsecond, Second, down 1000000);
    ts_harness!(ts_us_to_ms, Microsecond, Millisecond, down 1000);
    ts_harness!(ts_us_to_us, Microsecond, Microsecond, up 1);
    ts_harness!(ts_us_to_ns, Microsecond, Nanosecond, up 1000);
    ts_harness!(ts_ns_to_s, Nanosecond, Second, down 1000000000);
    ts_harness!(ts_ns_to_ms, Nanosecond, Millisecond, down 1000000);
    ts_harness!(ts_ns_to_us, Nanosecond, Microsecond, down 1000);
    ts_harness!(ts_ns_to_ns, Nanosecond, Nanosecond, up 1);

    // ---------------------------------------------------------------- dates and times of day
    #[kani::proof]
    fn coerce_dates() {
        let d: i32 = kani::any();
        match safe_coerce_scalar(&ScalarValue::Date32(Some(d)), &DataType::Date64) {
            Some(ScalarValue::Date64(Some(x))) => assert!(x == d as i64 * 86400000),
            _ => assert!(false),
        }
        let m: i64 = kani::any();
        // Date64 values whose day number fits Date32 (the conversion of other values is not specified here)
        kani::assume(m / 86400000 >= i32::MIN as i64 && m / 86400000 <= i32::MAX as i64);
        match safe_coerce_scalar(&ScalarValue::Date64(Some(m)), &DataType::Date32) {
            Some(ScalarValue::Date32(Some(x))) => assert!(x as i64 == m / 86400000),
            _ => assert!(false),
        }
        assert!(safe_coerce_scalar(&ScalarValue::Date32(Some(d)), &DataType::Int32).is_none());
        kani::cover!(m < 0);
    }

    /// times of day: in-domain values (0 <= t < one day in the source unit); exact scaling, no overflow
    #[kani::proof]
    fn coerce_times() {
        let s: i32 = kani::any();
        kani::assume(s >= 0 && s < 86_400);
        match safe_coerce_scalar(&ScalarValue::Time32Second(Some(s)), &DataType::Time32(TimeUnit::Millisecond)) {
            Some(ScalarValue::Time32Millisecond(Some(x))) => assert!(x as i64 == s as i64 * 1000),
            _ => assert!(false),
        }
        match safe_coerce_scalar(&ScalarValue::Time32Second(Some(s)), &DataType::Time64(TimeUnit::Microsecond)) {
            Some(ScalarValue::Time64Microsecond(Some(x))) => assert!(x == i64::from(s) * 1000000),
            _ => assert!(false),
        }
        match safe_coerce_scalar(&ScalarValue::Time32Second(Some(s)), &DataType::Time64(TimeUnit::Nanosecond)) {
            Some(ScalarValue::Time64Nanosecond(Some(x))) => assert!(x == i64::from(s) * 1000000000),
            _ => assert!(false),
        }
        let ms: i32 = kani::any();
        kani::assume(ms >= 0 && ms < 86_400_000);
        match safe_coerce_scalar(&ScalarValue::Time32Millisecond(Some(ms)), &DataType::Time32(TimeUnit::Second)) {
            Some(ScalarValue::Time32Second(Some(x))) => assert!(x == ms / 1000),
            _ => assert!(false),
        }
        match safe_coerce_scalar(&ScalarValue::Time32Millisecond(Some(ms)), &DataType::Time64(TimeUnit::Microsecond)) {
            Some(ScalarValue::Time64Microsecond(Some(x))) => assert!(x == i64::from(ms) * 1000),
            _ => assert!(false),
        }
        match safe_coerce_scalar(&ScalarValue::Time32Millisecond(Some(ms)), &DataType::Time64(TimeUnit::Nanosecond)) {
            Some(ScalarValue::Time64Nanosecond(Some(x))) => assert!(x == i64::from(ms) * 1000000),
            _ => assert!(false),
        }
        let us: i64 = kani::any();
        kani::assume(us >= 0 && us < 86_400_000_000);
        match safe_coerce_scalar(&ScalarValue::Time64Microsecond(Some(us)), &DataType::Time32(TimeUnit::Second)) {
            Some(ScalarValue::Time32Second(Some(x))) => assert!(x as i64 == us / 1000000),
            _ => assert!(false),
        }
        match safe_coerce_scalar(&ScalarValue::Time64Microsecond(Some(us)), &DataType::Time32(TimeUnit::Millisecond)) {
            Some(ScalarValue::Time32Millisecond(Some(x))) => assert!(x as i64 == us / 1000),
            _ => assert!(false),
        }
        match safe_coerce_scalar(&ScalarValue::Time64Microsecond(Some(us)), &DataType::Time64(TimeUnit::Nanosecond)) {
            Some(ScalarValue::Time64Nanosecond(Some(x))) => assert!(x == us * 1000),
            _ => assert!(false),
        }
        let ns: i64 = kani::any();
        kani::assume(ns >= 0 && ns < 86_400_000_000_000);
        match safe_coerce_scalar(&ScalarValue::Time64Nanosecond(Some(ns)), &DataType::Time32(TimeUnit::Second)) {
            Some(ScalarValue::Time32Second(Some(x))) => assert!(x as i64 == ns / 1000000000),
            _ => assert!(false),
        }
        match safe_coerce_scalar(&ScalarValue::Time64Nanosecond(Some(ns)), &DataType::Time32(TimeUnit::Millisecond)) {
            Some(ScalarValue::Time32Millisecond(Some(x))) => assert!(x as i64 == ns / 1000000),
            _ => assert!(false),
        }
        match safe_coerce_scalar(&ScalarValue::Time64Nanosecond(Some(ns)), &DataType::Time64(TimeUnit::Microsecond)) {
            Some(ScalarValue::Time64Microsecond(Some(x))) => assert!(x == ns / 1000),
            _ => assert!(false),
        }
        kani::cover!(s == 86_399 && ms == 86_399_999);
    }

    // ---------------------------------------------------------------- typed NULL literals
    /// a typed NULL literal (payload None) never turns into a non-NULL value: the coercion either refuses it or yields
    /// a NULL -- for every numeric source variant and every numeric target type
    #[kani::proof]
    #[kani::unwind(12)]
    fn null_literals_never_become_values() {
        // all 10 x 10 (source variant, target type) pairs, enumerated concretely (a symbolic pair makes CBMC clone every
        // String-carrying variant symbolically: out of memory, measured)
        let mut some = 0u32; let mut none = 0u32;
        for si in 0..10u8 { for ti in 0..10u8 {
            let src = match si {
                0 => ScalarValue::Int8(None), 1 => ScalarValue::Int16(None), 2 => ScalarValue::Int32(None), 3 => ScalarValue::Int64(None),
                4 => ScalarValue::UInt8(None), 5 => ScalarValue::UInt16(None), 6 => ScalarValue::UInt32(None), 7 => ScalarValue::UInt64(None),
                8 => ScalarValue::Float32(None), _ => ScalarValue::Float64(None) };
            let ty = match ti {
                0 => DataType::Int8, 1 => DataType::Int16, 2 => DataType::Int32, 3 => DataType::Int64,
                4 => DataType::UInt8, 5 => DataType::UInt16, 6 => DataType::UInt32, 7 => DataType::UInt64,
                8 => DataType::Float32, _ => DataType::Float64 };
            match safe_coerce_scalar(&src, &ty) {
                None => none += 1,
                Some(v) => { some += 1; assert!(matches!(v, ScalarValue::Int8(None) | ScalarValue::Int16(None) | ScalarValue::Int32(None) | ScalarValue::Int64(None)
                    | ScalarValue::UInt8(None) | ScalarValue::UInt16(None) | ScalarValue::UInt32(None) | ScalarValue::UInt64(None) | ScalarValue::Float32(None) | ScalarValue::Float64(None) | ScalarValue::Null),
                    "a NULL literal became a value"); }
            }
        } }
        kani::cover!(some > 0); kani::cover!(none > 0);
    }
}
