//! Kani unit `flags_apply`: the REAL text of `apply_feature_flags` and the FLAG_* constants
//! (rust/lance-table/src/feature_flags.rs) against a shim Manifest.  "The flags written always reflect the table
//! contents (deletion files, stable row ids, base paths, config)".
#![allow(dead_code, unused_macros, unused_imports, clippy::all)]
use std::sync::Arc;
pub struct Fragment { pub deletion_file: Option<()>, pub row_id_meta: Option<()> }
pub struct Manifest {
    pub fragments: Arc<Vec<Fragment>>,
    pub config: MapShim,
    pub base_paths: MapShim,
    pub reader_feature_flags: u64,
    pub writer_feature_flags: u64,
}
/// stands for HashMap<..>: only is_empty() is used (std HashMap cannot be built under Kani: RandomState syscall)
pub struct MapShim { pub n: usize }
impl MapShim { pub fn is_empty(&self) -> bool { self.n == 0 } }
#[derive(Debug)]
pub enum Error { InvalidInput }
impl Error { pub fn invalid_input(_m: &str, _l: ()) -> Self { Self::InvalidInput } }
pub type Result<T> = std::result::Result<T, Error>;
macro_rules! location { () => { () } }
include!("gen/flags.rs");

#[cfg(kani)]
mod proofs {
    use super::*;
    /// documented meaning of the bits (docs/src/format/table/versioning.md + the constants' doc comments):
    /// 1 deletion files (reader+writer), 2 stable row ids (reader+writer), 8 table config (writer only),
    /// 16 base paths (reader+writer), 32 transaction file disabled (writer only).  Oracle uses the numbers, not the
    /// constants, so moving a constant is noticed.
    #[kani::proof]
    #[kani::unwind(5)]
    fn flags_reflect_contents() {
        let d: [bool; 3] = kani::any(); let r: [bool; 3] = kani::any();
        let n: usize = kani::any(); kani::assume(n <= 3);
        let mut frags = Vec::new();
        for i in 0..3 { if i < n { frags.push(Fragment { deletion_file: if d[i] {Some(())} else {None}, row_id_meta: if r[i] {Some(())} else {None} }); } }
        let mut m = Manifest { fragments: Arc::new(frags), config: MapShim { n: kani::any() }, base_paths: MapShim { n: kani::any() },
            reader_feature_flags: kani::any(), writer_feature_flags: kani::any() };
        let stable: bool = kani::any(); let dis: bool = kani::any();
        let res = apply_feature_flags(&mut m, stable, dis);
        let any_del = (0..3).any(|i| i < n && d[i]);
        let any_rid = (0..3).any(|i| i < n && r[i]);
        let all_rid = (0..3).all(|i| i >= n || r[i]);
        if (any_rid || stable) && !all_rid {
            assert!(res.is_err(), "a table mixing fragments with and without row ids is accepted");
        } else {
            assert!(res.is_ok(), "well-formed table refused");
            let cfg = m.config.n != 0; let bp = m.base_paths.n != 0;
            let want_r: u64 = (if any_del {1} else {0}) | (if any_rid || stable {2} else {0}) | (if bp {16} else {0});
            let want_w: u64 = want_r | (if dis {32} else {0}) | (if cfg {8} else {0});
            assert!(m.reader_feature_flags == want_r, "reader flags do not reflect the table contents");
            assert!(m.writer_feature_flags == want_w, "writer flags do not reflect the table contents");
            // what is written is always readable / writable by this very implementation
            assert!(can_read_dataset(m.reader_feature_flags) && can_write_dataset(m.writer_feature_flags));
        }
        kani::cover!(res.is_ok() && n == 3 && any_del && any_rid);
        kani::cover!(res.is_err());
    }
}
