//! Kani unit `flags_apply`: the REAL text of `apply_feature_flags` and the FLAG_* constants
//! (rust/lance-table/src/feature_flags.rs) against a shim Manifest.  "The flags written always reflect the table
//! contents (deletion files, stable row ids, base paths, config)".
#![allow(dead_code, unused_macros, unused_imports, clippy::all)]
use std::sync::Arc;
/// shim of lance_table::format::{Fragment, DeletionFile, DeletionFileType, RowIdMeta}: same field names and types for the
/// scalar fields (so that code reading e.g. `num_deleted_rows` still compiles and is judged against the contract)
#[derive(Clone, Copy, PartialEq, Eq, Debug)]
pub enum DeletionFileType { Array, Bitmap }
#[derive(Clone, Copy, PartialEq, Eq, Debug)]
pub struct DeletionFile { pub read_version: u64, pub id: u64, pub file_type: DeletionFileType, pub num_deleted_rows: Option<usize>, pub base_id: Option<u32> }
#[derive(Clone, Copy, PartialEq, Eq, Debug)]
pub enum RowIdMeta { Inline, External }
pub struct Fragment { pub id: u64, pub deletion_file: Option<DeletionFile>, pub row_id_meta: Option<RowIdMeta>, pub physical_rows: Option<usize> }
/// stands for Arc<Vec<Fragment>>: the function only calls .iter() on it.  A fixed array + length instead of a heap Vec
/// (CBMC models heap writes of large structs byte-wise: 24M variables with a Vec, 1M with this)
pub struct Frags { pub items: [Fragment; 6], pub n: usize }
impl Frags { pub fn iter(&self) -> std::slice::Iter<'_, Fragment> { self.items[..self.n].iter() } }
pub struct Manifest {
    pub fragments: Frags,
    pub config: MapShim,
    pub base_paths: MapShim,
    pub reader_feature_flags: u64,
    pub writer_feature_flags: u64,
}
/// stands for HashMap<..>: only is_empty() is used (std HashMap cannot be built under Kani: RandomState syscall)
pub struct MapShim { pub n: usize }
impl MapShim { pub fn is_empty(&self) -> bool { self.n == 0 } }
#[derive(Debug)]
pub enum Error { InvalidInput }
impl Error { pub fn invalid_input(_m: &str, _l: ()) -> Self { Self::InvalidInput } }
pub type Result<T> = std::result::Result<T, Error>;
macro_rules! location { () => { () } }
include!("gen/flags.rs");

#[cfg(kani)]
mod proofs {
    use super::*;
    /// documented meaning of the bits (docs/src/format/table/versioning.md + the constants' doc comments):
    /// 1 deletion files (reader+writer), 2 stable row ids (reader+writer), 8 table config (writer only),
    /// 16 base paths (reader+writer), 32 transaction file disabled (writer only).  Oracle uses the numbers, not the
    /// constants, so moving a constant is noticed.
    #[kani::proof]
    #[kani::unwind(8)]
    fn flags_reflect_contents() {
        let d: [bool; 6] = kani::any(); let r: [bool; 6] = kani::any();
        let n: usize = kani::any(); kani::assume(n <= 6);
        let mk = |i: usize| Fragment {
            id: kani::any(), physical_rows: if kani::any() { Some(kani::any()) } else { None },
            deletion_file: if d[i] { Some(DeletionFile { read_version: kani::any(), id: kani::any(),
                file_type: if kani::any() { DeletionFileType::Array } else { DeletionFileType::Bitmap },
                num_deleted_rows: if kani::any() { Some(kani::any()) } else { None },
                base_id: if kani::any() { Some(kani::any()) } else { None } }) } else { None },
            row_id_meta: if r[i] { Some(if kani::any() { RowIdMeta::Inline } else { RowIdMeta::External }) } else { None } };
        let frags = Frags { items: [mk(0), mk(1), mk(2), mk(3), mk(4), mk(5)], n };
        let mut m = Manifest { fragments: frags, config: MapShim { n: kani::any() }, base_paths: MapShim { n: kani::any() },
            reader_feature_flags: kani::any(), writer_feature_flags: kani::any() };
        let stable: bool = kani::any(); let dis: bool = kani::any();
        let res = apply_feature_flags(&mut m, stable, dis);
        let any_del = (0..6).any(|i| i < n && d[i]);
        let any_rid = (0..6).any(|i| i < n && r[i]);
        let all_rid = (0..6).all(|i| i >= n || r[i]);
        if (any_rid || stable) && !all_rid {
            assert!(res.is_err(), "a table mixing fragments with and without row ids is accepted");
        } else {
            assert!(res.is_ok(), "well-formed table refused");
            let cfg = m.config.n != 0; let bp = m.base_paths.n != 0;
            let want_r: u64 = (if any_del {1} else {0}) | (if any_rid || stable {2} else {0}) | (if bp {16} else {0});
            let want_w: u64 = want_r | (if dis {32} else {0}) | (if cfg {8} else {0});
            assert!(m.reader_feature_flags == want_r, "reader flags do not reflect the table contents");
            assert!(m.writer_feature_flags == want_w, "writer flags do not reflect the table contents");
            // what is written is always readable / writable by this very implementation
            assert!(can_read_dataset(m.reader_feature_flags) && can_write_dataset(m.writer_feature_flags));
        }
        kani::cover!(res.is_ok() && n == 6 && any_del && any_rid);
        kani::cover!(res.is_err());
    }

    /// "Readers refuse any table whose reader flags include a bit they do not know and writers refuse unknown writer
    /// flags" -- over all 2^64 flag words (loop-free: complete).  Known bits per docs/constants: 1,2,4,8,16,32.
    /// This is the Kani twin of the Verus `flags` unit: it supplies the concrete counterexample.
    #[kani::proof]
    fn unknown_bits_are_refused() {
        let f: u64 = kani::any();
        let known: u64 = 1 | 2 | 4 | 8 | 16 | 32;
        assert!(can_read_dataset(f) == (f & !known == 0), "reader accepts a flag word with an unknown bit (or refuses a known one)");
        assert!(can_write_dataset(f) == (f & !known == 0), "writer accepts a flag word with an unknown bit (or refuses a known one)");
        kani::cover!(can_read_dataset(f) && f != 0);
        kani::cover!(!can_read_dataset(f));
    }
}
