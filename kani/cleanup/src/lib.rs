//! Kani unit `cleanup`: the REAL text of `CleanupTask::path_if_not_referenced` and `CleanupPolicy::should_clean`
//! (rust/lance/src/dataset/cleanup.rs), written by the driver into src/gen/cleanup.rs on every run, compiled
//! against an ABSTRACT path domain: a path is (directory class, extension class, key).  The shim answers
//! `starts_with` / `extension` / `parts().nth(1)` for exactly the literals the function uses; an unknown literal
//! panics => the harness fails to verify on a non-locked check => UNDECIDED, never a silent pass.
#![allow(dead_code, unused_macros, unused_variables, unused_imports, clippy::all)]

// logging macro used by the text: no data flow
macro_rules! info { ($($t:tt)*) => {}; }
pub const TRACE_FILE_AUDIT: &str = "";
#[derive(Debug)] pub struct Error;
pub type Result<T> = std::result::Result<T, Error>;

#[derive(Clone, Copy, PartialEq, Eq, Debug)]
pub enum Dir { VersionsTmp, Versions, Indices, IndicesNoUuid, Data, Deletions, Transactions, Other }
#[derive(Clone, Copy, PartialEq, Eq, Debug)]
pub enum Ext { Lance, Manifest, Arrow, Bin, Txn, Other, None }
/// abstract object-store path: which top-level directory it lies in, which extension it has, and a key
/// (2 bits) that distinguishes files / index uuids inside that class
#[derive(Clone, Copy, PartialEq, Eq, Debug)]
pub struct Path { pub dir: Dir, pub ext: Ext, pub key: u8 }
pub struct PStr(Path);
impl PStr {
    pub fn starts_with(&self, lit: &str) -> bool {
        if lit == "_versions/.tmp" { self.0.dir == Dir::VersionsTmp }
        else if lit == "_indices" { self.0.dir == Dir::Indices || self.0.dir == Dir::IndicesNoUuid }
        else if lit == "data" { self.0.dir == Dir::Data }
        else if lit == "_deletions" { self.0.dir == Dir::Deletions }
        else if lit == "_transactions" { self.0.dir == Dir::Transactions }
        else { panic!("shim: unknown prefix literal") }
    }
}
pub const UUIDS: [&str; 4] = ["u0", "u1", "u2", "u3"];
pub struct Part(u8);
impl Part { pub fn as_ref(&self) -> &'static str { UUIDS[(self.0 & 3) as usize] } }
pub struct Parts(Path);
impl Parts {
    pub fn nth(&self, n: usize) -> Option<Part> {
        assert!(n == 1, "shim: only the uuid component (index 1) is modelled");
        if self.0.dir == Dir::Indices { Some(Part(self.0.key)) } else { None }
    }
}
impl Path {
    pub fn as_ref(&self) -> PStr { PStr(*self) }
    pub fn parts(&self) -> Parts { Parts(*self) }
    pub fn extension(&self) -> Option<&'static str> {
        match self.ext { Ext::Lance => Some("lance"), Ext::Manifest => Some("manifest"), Ext::Arrow => Some("arrow"),
            Ext::Bin => Some("bin"), Ext::Txn => Some("txn"), Ext::Other => Some("xyz"), Ext::None => None }
    }
}
/// the dataset base is a prefix of every listed path; relative and absolute path denote the same abstract object
pub fn remove_prefix(path: &Path, _prefix: &Path) -> Path { *path }
#[derive(Clone, Copy)]
pub struct PathSet { pub items: [Path; 2], pub n: u8 }
impl PathSet { pub fn contains(&self, p: &Path) -> bool { (self.n >= 1 && self.items[0] == *p) || (self.n >= 2 && self.items[1] == *p) }
    pub fn insert(&mut self, p: Path) -> bool { if self.contains(&p) { return false; } assert!(self.n < 2, "shim: set capacity"); self.items[self.n as usize] = p; self.n += 1; true } }
#[derive(Clone, Copy)]
pub struct StrSet { pub items: [u8; 2], pub n: u8 }
impl StrSet { pub fn contains_key(&self, k: u8) -> bool { (self.n >= 1 && self.items[0] & 3 == k & 3) || (self.n >= 2 && self.items[1] & 3 == k & 3) }
    pub fn insert(&mut self, u: UuidStr) -> bool { if self.contains_key(u.0) { return false; } assert!(self.n < 2, "shim: set capacity"); self.items[self.n as usize] = u.0 & 3; self.n += 1; true }
    pub fn contains(&self, s: &str) -> bool { (self.n >= 1 && UUIDS[(self.items[0] & 3) as usize] == s) || (self.n >= 2 && UUIDS[(self.items[1] & 3) as usize] == s) } }
pub struct ReferencedFiles { pub data_paths: PathSet, pub delete_paths: PathSet, pub tx_paths: PathSet, pub index_uuids: StrSet }
pub struct CleanupInspection { pub referenced_files: ReferencedFiles, pub verified_files: ReferencedFiles }
/// a file / directory name component (the key of the abstract path it leads to)
#[derive(Clone, Copy, PartialEq, Eq, Debug)]
pub struct Name(pub u8);
impl Name { pub fn as_str(&self) -> Name { *self } }
/// a directory under the dataset root: `child(name)` is the file of that directory's own kind with that key
#[derive(Clone, Copy, PartialEq, Eq, Debug)]
pub struct DirPath(pub Dir);
impl DirPath {
    pub fn child(&self, n: Name) -> Path {
        match self.0 { Dir::Data => Path { dir: Dir::Data, ext: Ext::Lance, key: n.0 & 3 },
                       Dir::Transactions => Path { dir: Dir::Transactions, ext: Ext::Txn, key: n.0 & 3 },
                       _ => panic!("shim: child() of an unmodelled directory") }
    }
}
impl Path {
    /// only the literal the text uses
    pub fn parse(lit: &str) -> Result<DirPath> { if lit == "_transactions" { Ok(DirPath(Dir::Transactions)) } else { panic!("shim: unknown path literal") } }
}
#[derive(Clone, Copy, PartialEq, Eq, Debug)]
pub enum DeletionFileType { Array, Bitmap }
#[derive(Clone, Copy, PartialEq, Eq, Debug)]
pub struct DeletionFile { pub file_type: DeletionFileType, pub key: u8 }
/// lance_table::io::deletion::deletion_file_path: `_deletions/<frag>-<read_version>-<id>.<arrow|bin>`
pub fn deletion_file_path(_base: &Path, _fragment_id: u64, d: &DeletionFile) -> Path {
    Path { dir: Dir::Deletions, ext: match d.file_type { DeletionFileType::Array => Ext::Arrow, DeletionFileType::Bitmap => Ext::Bin }, key: d.key & 3 }
}
#[derive(Clone, Copy, Debug)]
pub struct DataFile { pub path: Name }
#[derive(Clone, Copy, Debug)]
pub struct FileList { pub items: [DataFile; 2], pub n: usize }
impl FileList { pub fn iter(&self) -> std::slice::Iter<'_, DataFile> { self.items[..self.n].iter() } }
#[derive(Clone, Copy, Debug)]
pub struct Fragment { pub id: u64, pub files: FileList, pub deletion_file: Option<DeletionFile> }
#[derive(Clone, Copy, Debug)]
pub struct FragList { pub items: [Fragment; 1], pub n: usize }
impl FragList { pub fn iter(&self) -> std::slice::Iter<'_, Fragment> { self.items[..self.n].iter() } }
#[derive(Clone, Copy, PartialEq, Eq, Debug)]
pub struct UuidStr(pub u8);
#[derive(Clone, Copy, PartialEq, Eq, Debug)]
pub struct Uuid(pub u8);
impl Uuid { pub fn to_string(&self) -> UuidStr { UuidStr(self.0 & 3) } }
#[derive(Clone, Copy, Debug)]
pub struct IndexMetadata { pub uuid: Uuid }
pub struct MutexGuard<'a, T>(pub &'a mut T);
impl<'a, T> std::ops::Deref for MutexGuard<'a, T> { type Target = T; fn deref(&self) -> &T { self.0 } }
impl<'a, T> std::ops::DerefMut for MutexGuard<'a, T> { fn deref_mut(&mut self) -> &mut T { self.0 } }
pub struct DatasetShim { pub base: Path }
impl DatasetShim { pub fn data_dir(&self) -> DirPath { DirPath(Dir::Data) } }
pub struct CleanupTask<'a> { pub dataset: &'a DatasetShim, pub policy: CleanupPolicy }

// chrono::DateTime<Utc> is only compared: an ordered integer stands for it
pub type DateTime<T> = (i64, std::marker::PhantomData<T>);
#[derive(Clone, Copy, PartialEq, Eq, PartialOrd, Ord, Debug)]
pub struct Utc;
pub struct Manifest { pub version: u64, pub ts: i64, pub fragments: FragList, pub transaction_file: Option<Name> }
impl Manifest { pub fn timestamp(&self) -> DateTime<Utc> { (self.ts, std::marker::PhantomData) } }
pub struct CleanupPolicy {
    pub before_timestamp: Option<DateTime<Utc>>,
    pub before_version: Option<u64>,
    pub delete_unverified: bool,
    pub error_if_tagged_old_versions: bool,
}

include!("gen/cleanup.rs");
include!("gen/working_set.rs");

#[cfg(kani)]
mod proofs {
    use super::*;
    fn any_dir() -> Dir { match kani::any::<u8>() % 8 { 0 => Dir::VersionsTmp, 1 => Dir::Versions, 2 => Dir::Indices, 3 => Dir::IndicesNoUuid, 4 => Dir::Data, 5 => Dir::Deletions, 6 => Dir::Transactions, _ => Dir::Other } }
    fn any_ext() -> Ext { match kani::any::<u8>() % 7 { 0 => Ext::Lance, 1 => Ext::Manifest, 2 => Ext::Arrow, 3 => Ext::Bin, 4 => Ext::Txn, 5 => Ext::Other, _ => Ext::None } }
    fn any_path() -> Path { Path { dir: any_dir(), ext: any_ext(), key: kani::any::<u8>() & 3 } }
    fn any_pset() -> PathSet { PathSet { items: [any_path(), any_path()], n: kani::any::<u8>() % 3 } }
    fn any_sset() -> StrSet { StrSet { items: [kani::any::<u8>() & 3, kani::any::<u8>() & 3], n: kani::any::<u8>() % 3 } }
    fn any_ref() -> ReferencedFiles { ReferencedFiles { data_paths: any_pset(), delete_paths: any_pset(), tx_paths: any_pset(), index_uuids: any_sset() } }

    fn no_policy() -> CleanupPolicy { CleanupPolicy { before_timestamp: None, before_version: None, delete_unverified: false, error_if_tagged_old_versions: true } }
    fn no_frags() -> FragList { FragList { items: [Fragment { id: 0, files: FileList { items: [DataFile { path: Name(0) }; 2], n: 0 }, deletion_file: None }], n: 0 } }
    fn empty_ref() -> ReferencedFiles { let e = PathSet { items: [Path { dir: Dir::Other, ext: Ext::None, key: 0 }; 2], n: 0 };
        ReferencedFiles { data_paths: e, delete_paths: e, tx_paths: e, index_uuids: StrSet { items: [0; 2], n: 0 } } }
    fn uuid_of(p: &Path) -> &'static str { UUIDS[(p.key & 3) as usize] }
    /// "referenced by a retained version": p is a data / deletion / transaction file or an index directory entry
    /// that one of the retained manifests names
    fn referenced(insp: &CleanupInspection, p: &Path) -> bool {
        (p.dir == Dir::Data && insp.referenced_files.data_paths.contains(p))
            || (p.dir == Dir::Deletions && insp.referenced_files.delete_paths.contains(p))
            || (p.dir == Dir::Transactions && insp.referenced_files.tx_paths.contains(p))
            || (p.dir == Dir::Indices && insp.referenced_files.index_uuids.contains(uuid_of(p)))
    }
    /// "verified": named by one of the manifests being removed (so known not to belong to a write in progress)
    fn verified(insp: &CleanupInspection, p: &Path) -> bool {
        (p.dir == Dir::Data && insp.verified_files.data_paths.contains(p))
            || (p.dir == Dir::Deletions && insp.verified_files.delete_paths.contains(p))
            || (p.dir == Dir::Transactions && insp.verified_files.tx_paths.contains(p))
            || (p.dir == Dir::Indices && insp.verified_files.index_uuids.contains(uuid_of(p)))
    }

    /// C08 (i): a file referenced by a retained version is never returned for deletion -- whatever its
    /// extension, whatever the in-progress flag, whatever else is in the sets.
    #[kani::proof]
    #[kani::unwind(20)]
    fn never_delete_referenced() {
        let ds = DatasetShim { base: any_path() };
        let task = CleanupTask { dataset: &ds, policy: no_policy() };
        let insp = CleanupInspection { referenced_files: any_ref(), verified_files: any_ref() };
        let p = any_path();
        let mip: bool = kani::any();
        let r = task.path_if_not_referenced(p, mip, &insp);
        match r {
            Ok(Some(q)) => {
                assert!(q == p, "returns the very path it was asked about");
                assert!(!referenced(&insp, &p), "a referenced file is selected for deletion");
            }
            Ok(None) => {}
            Err(_) => assert!(false, "decision never errors"),
        }
        kani::cover!(matches!(r, Ok(Some(_))) && p.dir == Dir::Data);
        kani::cover!(matches!(r, Ok(Some(_))) && p.dir == Dir::Indices);
        kani::cover!(matches!(r, Ok(None)) && referenced(&insp, &p));
    }

    /// C08 (ii): while a write may be in progress (file younger than the safety window and unverified deletion
    /// not requested) only VERIFIED files are returned; in particular never a temporary manifest.
    #[kani::proof]
    #[kani::unwind(20)]
    fn in_progress_only_verified() {
        let ds = DatasetShim { base: any_path() };
        let task = CleanupTask { dataset: &ds, policy: no_policy() };
        let insp = CleanupInspection { referenced_files: any_ref(), verified_files: any_ref() };
        let p = any_path();
        let r = task.path_if_not_referenced(p, true, &insp);
        if let Ok(Some(_)) = r {
            assert!(p.dir != Dir::VersionsTmp, "temporary manifest of a possibly running commit deleted");
            assert!(verified(&insp, &p), "unverified young file deleted");
        }
        kani::cover!(matches!(r, Ok(Some(_))));
        kani::cover!(matches!(r, Ok(None)) && p.dir == Dir::VersionsTmp);
    }

    /// C08 (iii): manifests and unknown kinds of file are never returned from here ("deletes only manifests
    /// selected by the policy": manifest deletion is decided elsewhere), nor is anything outside its home directory.
    #[kani::proof]
    #[kani::unwind(20)]
    fn only_known_kinds_in_their_directory() {
        let ds = DatasetShim { base: any_path() };
        let task = CleanupTask { dataset: &ds, policy: no_policy() };
        let insp = CleanupInspection { referenced_files: any_ref(), verified_files: any_ref() };
        let p = any_path();
        let mip: bool = kani::any();
        let r = task.path_if_not_referenced(p, mip, &insp);
        if let Ok(Some(_)) = r {
            let home = p.dir == Dir::VersionsTmp
                || p.dir == Dir::Indices
                || (p.dir == Dir::Data && p.ext == Ext::Lance)
                || (p.dir == Dir::Deletions && (p.ext == Ext::Arrow || p.ext == Ext::Bin))
                || (p.dir == Dir::Transactions && p.ext == Ext::Txn);
            assert!(home, "file of unknown kind or outside its directory selected for deletion");
            assert!(p.dir != Dir::Versions, "a published manifest is selected here");
        }
        kani::cover!(matches!(r, Ok(Some(_))) && p.dir == Dir::Transactions);
        kani::cover!(matches!(r, Ok(None)) && p.ext == Ext::Manifest);
    }

    /// no needless retention (converse, so that `always None` does not verify): an old or explicitly-unverified
    /// unreferenced data/deletion/txn/index file IS returned.
    #[kani::proof]
    #[kani::unwind(20)]
    fn unreferenced_old_files_are_collected() {
        let ds = DatasetShim { base: any_path() };
        let task = CleanupTask { dataset: &ds, policy: no_policy() };
        let insp = CleanupInspection { referenced_files: any_ref(), verified_files: any_ref() };
        let p = any_path();
        let r = task.path_if_not_referenced(p, false, &insp);
        let collectable = (p.dir == Dir::Data && p.ext == Ext::Lance)
            || (p.dir == Dir::Deletions && (p.ext == Ext::Arrow || p.ext == Ext::Bin))
            || (p.dir == Dir::Transactions && p.ext == Ext::Txn)
            || p.dir == Dir::Indices || p.dir == Dir::VersionsTmp;
        if collectable && !referenced(&insp, &p) {
            assert!(matches!(r, Ok(Some(_))), "garbage kept forever");
        }
        kani::cover!(collectable && !referenced(&insp, &p));
    }

    /// CleanupPolicy::should_clean(m) <=> m is strictly older than every limit the policy sets
    #[kani::proof]
    fn should_clean_is_strictly_before() {
        let pol = CleanupPolicy {
            before_timestamp: if kani::any() { Some((kani::any::<i64>(), std::marker::PhantomData)) } else { None },
            before_version: if kani::any() { Some(kani::any::<u64>()) } else { None },
            delete_unverified: kani::any(), error_if_tagged_old_versions: kani::any(),
        };
        let m = Manifest { version: kani::any(), ts: kani::any(), fragments: no_frags(), transaction_file: None };
        let r = pol.should_clean(&m);
        let want = pol.before_timestamp.map_or(true, |t| m.ts < t.0) && pol.before_version.map_or(true, |v| m.version < v);
        assert!(r == want, "policy selects a version that is not strictly older than its limits (or spares one that is)");
        kani::cover!(r);
        kani::cover!(!r);
    }

    /// C08: "the latest version, tagged versions and every version the policy keeps remain": such a version is always in
    /// the working set (its files are recorded as referenced and its manifest is not removed).
    #[kani::proof]
    fn retained_versions_are_in_the_working_set() {
        let ds = DatasetShim { base: any_path() };
        let pol = CleanupPolicy {
            before_timestamp: if kani::any() { Some((kani::any::<i64>(), std::marker::PhantomData)) } else { None },
            before_version: if kani::any() { Some(kani::any::<u64>()) } else { None },
            delete_unverified: kani::any(), error_if_tagged_old_versions: kani::any() };
        let keeps = |m: &Manifest| !(pol.before_timestamp.map_or(true, |t| m.ts < t.0) && pol.before_version.map_or(true, |v| m.version < v));
        let m = Manifest { version: kani::any(), ts: kani::any(), fragments: no_frags(), transaction_file: None };
        let policy_keeps = keeps(&m);
        let task = CleanupTask { dataset: &ds, policy: pol };
        let dataset_version: u64 = kani::any();
        let tagged: bool = kani::any();
        let in_ws = task.in_working_set(&m, dataset_version, tagged);
        assert!(in_ws == (m.version >= dataset_version || tagged || policy_keeps), "retention decision differs from 'latest or tagged or kept by the policy'");
        kani::cover!(in_ws); kani::cover!(!in_ws);
    }
}
