//! Kani unit `bytepack`: rust/lance-encoding/src/utils/bytepack.rs, the WHOLE REAL FILE #[path]-included (it has
//! no imports).  Byte-pack codec round trip.
#![allow(dead_code, unused_macros, unused_imports, clippy::all)]
#[path = "/repo/rust/lance-encoding/src/utils/bytepack.rs"]
pub mod bytepack;

#[cfg(kani)]
mod proofs {
    use super::bytepack::*;
    fn width_for(max: u64) -> usize { if max <= 0xff { 1 } else if max <= 0xffff { 2 } else if max <= 0xffff_ffff { 4 } else { 8 } }

    /// C26 (byte-pack codec): for every max_value > 0 and every pair of values <= max_value the unpacker returns
    /// exactly the values appended, in order, and nothing else; the data length is count * width where width is
    /// the smallest of 1/2/4/8 bytes that holds max_value.  Entries are encoded independently.
    #[kani::proof]
    #[kani::unwind(20)]
    fn roundtrip_two_values() {
        let max: u64 = kani::any();
        let a: u64 = kani::any();
        let b: u64 = kani::any();
        kani::assume(a <= max && b <= max && max > 0);
        let mut enc = BytepackedIntegerEncoder::with_capacity(2, max);
        unsafe { enc.append(a); enc.append(b); }
        let width = width_for(max);
        let data = enc.into_data();
        assert!(data.len() == 2 * width, "encoded size is not count * smallest byte width");
        let mut it = ByteUnpacker::new(data, width);
        assert!(it.next() == Some(a), "first value changed");
        assert!(it.next() == Some(b), "second value changed");
        assert!(it.next() == None, "unpacker yields more values than were packed");
        kani::cover!(width == 1); kani::cover!(width == 2); kani::cover!(width == 4); kani::cover!(width == 8);
    }

    /// max_value = 0: nothing is stored at all (every value is known to be 0)
    #[kani::proof]
    #[kani::unwind(4)]
    fn zero_max_stores_nothing() {
        let mut enc = BytepackedIntegerEncoder::with_capacity(kani::any::<u8>() as usize, 0);
        unsafe { enc.append(0); enc.append(0); }
        assert!(enc.into_data().is_empty());
        kani::cover!(true);
    }
}
