//! Kani unit `index_bitmaps`: the REAL text of the three functions of rust/lance/src/dataset/transaction.rs that maintain
//! an index's FRAGMENT BITMAP (the set of fragments whose current column values the index has seen) when a commit
//! rewrites data: `prune_updated_fields_from_indices`, `register_pure_rewrite_rows_update_frags_in_indices`,
//! `recalculate_fragment_bitmap` -- C24: "index coverage is never claimed for data the index did not see".
//! Shims: array-backed lists, a RoaringBitmap over fragment ids 0..8 (a u8 bit set) and a tiny HashSet.
#![allow(dead_code, unused_macros, unused_imports, clippy::all)]
macro_rules! location { () => { () }; }
#[derive(Debug)]
pub enum Error { InvalidInput }
impl Error { pub fn invalid_input(_m: &str, _l: ()) -> Self { Self::InvalidInput } }
pub type Result<T> = std::result::Result<T, Error>;

/// shim of roaring::RoaringBitmap over fragment ids 0..8
#[derive(Clone, Copy, Debug, PartialEq, Eq)]
pub struct RoaringBitmap { pub bits: u8 }
impl RoaringBitmap {
    pub fn contains(&self, v: u32) -> bool { v < 8 && self.bits & (1 << v) != 0 }
    pub fn insert(&mut self, v: u32) -> bool { assert!(v < 8, "shim: fragment id outside the abstract universe"); let had = self.contains(v); self.bits |= 1 << v; !had }
    pub fn remove(&mut self, v: u32) -> bool { let had = self.contains(v); if v < 8 { self.bits &= !(1 << v); } had }
    pub fn extend(&mut self, it: impl IntoIterator<Item = u32>) { for v in it { self.insert(v); } }
}
/// shim of std::collections::HashSet (std's cannot be built under Kani: RandomState): at most 3 elements
pub struct HashSet<T> { items: [Option<T>; 3] }
impl<T: PartialEq + Copy> FromIterator<T> for HashSet<T> {
    fn from_iter<I: IntoIterator<Item = T>>(it: I) -> Self { let mut s = HashSet { items: [None; 3] }; let mut n = 0; for v in it { assert!(n < 3, "shim: set capacity"); s.items[n] = Some(v); n += 1; } s }
}
impl<T> HashSet<T> { pub fn contains<Q: PartialEq + ?Sized>(&self, v: &Q) -> bool where T: std::borrow::Borrow<Q> { self.items.iter().any(|o| match o { Some(x) => x.borrow() == v, None => false }) } }

#[derive(Clone, Copy, Debug, PartialEq)]
pub struct Fragment { pub id: u64 }
/// stands for Vec<i32> / Vec<Fragment>
#[derive(Clone, Copy, Debug)]
pub struct List<T: Copy, const N: usize> { pub items: [T; N], pub n: usize }
impl<T: Copy, const N: usize> List<T, N> { pub fn iter(&self) -> std::slice::Iter<'_, T> { self.items[..self.n].iter() } }
#[derive(Clone, Copy, Debug)]
pub struct IndexMetadata { pub fields: List<i32, 2>, pub fragment_bitmap: Option<RoaringBitmap> }
#[derive(Clone, Copy, Debug)]
pub struct RewriteGroup { pub old_fragments: List<Fragment, 2>, pub new_fragments: List<Fragment, 2> }
pub struct Transaction;

include!("gen/bitmaps.rs");

#[cfg(kani)]
mod proofs {
    use super::*;
    fn any_fields() -> List<i32, 2> { let n: usize = kani::any(); kani::assume(n >= 1 && n <= 2); let a: [i32; 2] = kani::any(); kani::assume(a[0] >= 0 && a[0] < 4 && a[1] >= 0 && a[1] < 4); List { items: a, n } }
    fn any_index() -> IndexMetadata { IndexMetadata { fields: any_fields(), fragment_bitmap: if kani::any() { Some(RoaringBitmap { bits: kani::any() }) } else { None } } }
    fn covers(ix: &IndexMetadata, modified: &[u32], nm: usize) -> bool {
        let mut c = false;
        for i in 0..2 { if i < ix.fields.n { for j in 0..2 { if j < nm && ix.fields.items[i] as u32 == modified[j] { c = true; } } } }
        c
    }

    /// C24: when a commit rewrites the values of some fields in some fragments, every index over one of those fields
    /// must stop claiming those fragments; nothing else changes (other indices, other fragments).
    #[kani::proof]
    #[kani::unwind(5)]
    fn rewritten_fragments_leave_the_indices_of_the_rewritten_fields() {
        let mut ix = [any_index(), any_index()];
        let before = ix;
        let fr: [u8; 2] = kani::any(); kani::assume(fr[0] < 8 && fr[1] < 8);
        let nf: usize = kani::any(); kani::assume(nf <= 2);
        let frags = [Fragment { id: fr[0] as u64 }, Fragment { id: fr[1] as u64 }];
        let m: [u32; 2] = kani::any(); kani::assume(m[0] < 4 && m[1] < 4);
        let nm: usize = kani::any(); kani::assume(nm <= 2);
        Transaction::prune_updated_fields_from_indices(&mut ix, &frags[..nf], &m[..nm]);
        for k in 0..2 {
            let mut gone: u8 = 0; for i in 0..2 { if i < nf { gone |= 1 << fr[i]; } }
            match (before[k].fragment_bitmap, ix[k].fragment_bitmap) {
                (None, None) => {}
                (Some(b), Some(a)) => {
                    if covers(&before[k], &m, nm) { assert!(a.bits == b.bits & !gone, "an index over a rewritten field still claims a rewritten fragment (or lost another one)"); }
                    else { assert!(a.bits == b.bits, "an index over untouched fields lost coverage"); }
                }
                _ => assert!(false, "bitmap appeared / disappeared"),
            }
        }
        kani::cover!(nf == 2 && nm == 2 && covers(&before[0], &m, nm) && !covers(&before[1], &m, nm));
    }

    /// C24: fragments produced by a rows-rewriting update (new fragments holding moved rows, values unchanged for the
    /// indexed fields) may be ADDED to an index's coverage only if the index does not cover a field whose VALUES were
    /// updated and the index had seen every fragment the moved rows came from.
    #[kani::proof]
    #[kani::unwind(5)]
    fn moved_rows_are_claimed_only_when_their_values_were_indexed() {
        let mut ix = [any_index()];
        let before = ix[0];
        let nw: [u8; 2] = kani::any(); let np: usize = kani::any(); kani::assume(np <= 2 && nw[0] < 8 && nw[1] < 8);
        let orig: [u8; 2] = kani::any(); let no: usize = kani::any(); kani::assume(no <= 2 && orig[0] < 8 && orig[1] < 8);
        let m: [u32; 2] = kani::any(); let nm: usize = kani::any(); kani::assume(nm <= 2 && m[0] < 4 && m[1] < 4);
        let pure = [nw[0] as u64, nw[1] as u64]; let origs = [orig[0] as u64, orig[1] as u64];
        Transaction::register_pure_rewrite_rows_update_frags_in_indices(&mut ix, &pure[..np], &origs[..no], &m[..nm]);
        if let (Some(b), Some(a)) = (before.fragment_bitmap, ix[0].fragment_bitmap) {
            let mut added: u8 = 0; for i in 0..2 { if i < np { added |= 1 << nw[i]; } }
            let mut seen_all = true; for i in 0..2 { if i < no && b.bits & (1 << orig[i]) == 0 { seen_all = false; } }
            let may_add = np > 0 && !covers(&before, &m, nm) && seen_all;
            if may_add { assert!(a.bits == b.bits | added); } else { assert!(a.bits == b.bits, "an index claims moved rows whose values it has not seen"); }
        } else { assert!(before.fragment_bitmap.is_none() && ix[0].fragment_bitmap.is_none()); }
        kani::cover!(np == 2 && ix[0].fragment_bitmap != before.fragment_bitmap);
        kani::cover!(np == 2 && covers(&before, &m, nm));
    }

    /// C24 (compaction): a rewrite group replaces old fragments by new ones holding the same rows.  The new fragments
    /// are covered exactly when ALL old fragments of their group were; a group mixing covered and uncovered fragments
    /// is refused; fragments outside the groups keep their status.
    #[kani::proof]
    #[kani::unwind(5)]
    fn compaction_keeps_coverage_truthful() {
        let old = RoaringBitmap { bits: kani::any() };
        let any_list = || { let a: [u8; 2] = kani::any(); kani::assume(a[0] < 8 && a[1] < 8); let n: usize = kani::any(); kani::assume(n >= 1 && n <= 2);
                            (List { items: [Fragment { id: a[0] as u64 }, Fragment { id: a[1] as u64 }], n }, a, n) };
        let (o, oa, on) = any_list(); let (nw, na, nn) = any_list();
        // new fragment ids are fresh: not among the old bitmap nor the group's old fragments (ids are never reused)
        for i in 0..2 { if i < nn { kani::assume(old.bits & (1 << na[i]) == 0); for j in 0..2 { if j < on { kani::assume(na[i] != oa[j]); } } } }
        let g = [RewriteGroup { old_fragments: o, new_fragments: nw }];
        let r = Transaction::recalculate_fragment_bitmap(&old, &g);
        let mut om: u8 = 0; for i in 0..2 { if i < on { om |= 1 << oa[i]; } }
        let mut nm_: u8 = 0; for i in 0..2 { if i < nn { nm_ |= 1 << na[i]; } }
        let any_in = old.bits & om != 0; let all_in = old.bits & om == om;
        match r {
            Ok(b) => { assert!(!any_in || all_in, "a group mixing indexed and unindexed fragments is accepted");
                       if all_in { assert!(b.bits == (old.bits & !om) | nm_, "coverage after compaction is not (old - replaced) + replacements"); }
                       else { assert!(b.bits == old.bits, "uncovered group changed the coverage"); } }
            Err(_) => assert!(any_in && !all_in, "a consistent group is refused"),
        }
        kani::cover!(all_in && on == 2); kani::cover!(r.is_err());
    }
}
