//! Kani unit `bitpack`: the REAL crate lance-bitpacking (path dependency on /repo/rust/compression/bitpacking; no
//! extraction, no shim).  One harness per (T, W): pack 1024 fully symbolic integers at bit width W, unpack, compare.
//! All loops have constant trip counts, unwinding assertions are on => each harness is a COMPLETE proof for its
//! (T, W), including memory safety of the unsafe kernels for buffers of the documented sizes.
#![allow(dead_code, unused_macros, unused_imports, clippy::all)]

#[cfg(kani)]
mod proofs {
    use lance_bitpacking::BitPacking;

    macro_rules! roundtrip {
        ($name:ident, $t:ty, $w:expr) => {
            #[kani::proof]
            #[kani::unwind(1026)]
            fn $name() {
                const W: usize = $w;
                const TBITS: usize = <$t>::BITS as usize;
                let input: [$t; 1024] = kani::any();
                let mut packed = [0 as $t; 1024 * W / TBITS];
                let mut out: [$t; 1024] = kani::any();   // a DIRTY output buffer: unpack must overwrite every element (width 0 included)
                unsafe {
                    <$t>::unchecked_pack(W, &input, &mut packed);
                    <$t>::unchecked_unpack(W, &packed, &mut out);
                }
                let mask: $t = if W == TBITS { <$t>::MAX } else { ((1 as $t) << (W % TBITS)).wrapping_sub(1) };
                let k: usize = kani::any();
                kani::assume(k < 1024);
                assert!(out[k] == input[k] & mask, "unpack(pack(x)) differs from x in its low W bits");
                kani::cover!(input[k] & mask != 0 || W == 0);
            }
        };
    }
    roundtrip!(u8_w0, u8, 0);  roundtrip!(u8_w1, u8, 1);  roundtrip!(u8_w2, u8, 2);  roundtrip!(u8_w3, u8, 3);
    roundtrip!(u8_w4, u8, 4);  roundtrip!(u8_w5, u8, 5);  roundtrip!(u8_w6, u8, 6);  roundtrip!(u8_w7, u8, 7);
    roundtrip!(u8_w8, u8, 8);
    roundtrip!(u16_w0, u16, 0);   roundtrip!(u16_w1, u16, 1);   roundtrip!(u16_w2, u16, 2);   roundtrip!(u16_w3, u16, 3);
    roundtrip!(u16_w4, u16, 4);   roundtrip!(u16_w5, u16, 5);   roundtrip!(u16_w6, u16, 6);   roundtrip!(u16_w7, u16, 7);
    roundtrip!(u16_w8, u16, 8);   roundtrip!(u16_w9, u16, 9);   roundtrip!(u16_w10, u16, 10); roundtrip!(u16_w11, u16, 11);
    roundtrip!(u16_w12, u16, 12);   
    roundtrip!(u16_w16, u16, 16);
    roundtrip!(u32_w0, u32, 0);   roundtrip!(u32_w1, u32, 1);      
     roundtrip!(u32_w32, u32, 32);
}
