//! Kani unit `zonemap`: the REAL text of `ZoneMapIndex::evaluate_zone_against_query`
//! (rust/lance-index/src/scalar/zonemap.rs), written into src/gen/zonemap.rs on every run, compiled against a shim
//! of the datafusion / lance types it names.  If /repo starts naming an item the shim lacks => UNDECIDED.
#![allow(dead_code, unused_macros, unused_imports, clippy::all)]
extern crate alloc;
use std::cmp::Ordering;
macro_rules! location { () => { () }; }
#[derive(Debug)]
pub enum Error { NotSupported { source: Box<dyn std::error::Error + Send + Sync>, location: () } }
pub type Result<T> = std::result::Result<T, Error>;

#[derive(Clone, Copy, Debug, PartialEq)]
pub struct F16(pub u16);
impl F16 { pub fn is_nan(&self) -> bool { (self.0 & 0x7c00) == 0x7c00 && (self.0 & 0x03ff) != 0 } }

/// shim of datafusion_common::ScalarValue restricted to the variants the function names (+ Int64 as "any other
/// type").  ASSUMED contract of its PartialOrd (datafusion_common/src/scalar/mod.rs): defined for equal variants
/// only; Option order None < Some; floats compared by IEEE total order (`total_cmp`).
#[derive(Clone, Debug, PartialEq)]
pub enum ScalarValue { Null, Int64(Option<i64>), Float16(Option<F16>), Float32(Option<f32>), Float64(Option<f64>) }
impl ScalarValue {
    pub fn is_null(&self) -> bool {
        matches!(self, Self::Null | Self::Int64(None) | Self::Float16(None) | Self::Float32(None) | Self::Float64(None))
    }
}
fn ocmp<T>(a: &Option<T>, b: &Option<T>, f: impl Fn(&T, &T) -> Ordering) -> Option<Ordering> {
    match (a, b) {
        (Some(x), Some(y)) => Some(f(x, y)),
        (None, None) => Some(Ordering::Equal), (None, Some(_)) => Some(Ordering::Less), (Some(_), None) => Some(Ordering::Greater) }
}
impl PartialOrd for ScalarValue {
    fn partial_cmp(&self, other: &Self) -> Option<Ordering> {
        match (self, other) {
            (Self::Int64(a), Self::Int64(b)) => a.partial_cmp(b),
            (Self::Float32(a), Self::Float32(b)) => ocmp(a, b, |x, y| x.total_cmp(y)),
            (Self::Float64(a), Self::Float64(b)) => ocmp(a, b, |x, y| x.total_cmp(y)),
            (Self::Null, Self::Null) => Some(Ordering::Equal),
            _ => None,
        }
    }
}
pub struct FtsQuery;
pub enum SargableQuery {
    Range(std::ops::Bound<ScalarValue>, std::ops::Bound<ScalarValue>),
    IsIn(Vec<ScalarValue>),
    Equals(ScalarValue),
    FullTextSearch(FtsQuery),
    IsNull(),
}
pub struct ZoneMapStatistics { pub min: ScalarValue, pub max: ScalarValue, pub null_count: u32, pub nan_count: u32 }
pub struct ZoneMapIndex;

include!("gen/zonemap.rs");

#[cfg(kani)]
mod proofs {
    use super::*;
    use std::ops::Bound;
    fn fmt_stub(_a: std::fmt::Arguments<'_>) -> String { String::new() }

    // ------------------------------------------------------------------ Int64 zones
    fn lit() -> ScalarValue { if kani::any() { ScalarValue::Int64(Some(kani::any())) } else { ScalarValue::Int64(None) } }
    fn bound() -> Bound<ScalarValue> { match kani::any::<u8>() % 3 { 0 => Bound::Unbounded, 1 => Bound::Included(ScalarValue::Int64(Some(kani::any()))), _ => Bound::Excluded(ScalarValue::Int64(Some(kani::any()))) } }
    fn sat_lo(b: &Bound<ScalarValue>, x: i64) -> bool { match b { Bound::Unbounded => true, Bound::Included(ScalarValue::Int64(Some(s))) => x >= *s, Bound::Excluded(ScalarValue::Int64(Some(s))) => x > *s, _ => false } }
    fn sat_hi(b: &Bound<ScalarValue>, x: i64) -> bool { match b { Bound::Unbounded => true, Bound::Included(ScalarValue::Int64(Some(s))) => x <= *s, Bound::Excluded(ScalarValue::Int64(Some(s))) => x < *s, _ => false } }

    /// C20 / C29: some row of an Int64 zone holds `v` (None = a NULL row) and the zone's statistics are consistent
    /// with that (min <= v <= max, null_count > 0 iff a NULL row exists; all-NULL zones have min = max = NULL).
    /// For every accepted query q: if the row satisfies q, the zone is NOT skipped.
    #[kani::proof]
    #[kani::unwind(4)]
    #[kani::stub(alloc::fmt::format, fmt_stub)]
    fn int_zone_never_prunes_a_match() {
        let v: Option<i64> = if kani::any() { Some(kani::any()) } else { None };
        let null_count: u32 = kani::any(); let nan_count: u32 = 0;
        let all_null: bool = kani::any();
        let (zmin, zmax) = if all_null { (ScalarValue::Int64(None), ScalarValue::Int64(None)) } else {
            let lo: i64 = kani::any(); let hi: i64 = kani::any(); kani::assume(lo <= hi);
            (ScalarValue::Int64(Some(lo)), ScalarValue::Int64(Some(hi))) };
        match v {
            None => kani::assume(null_count > 0),
            Some(x) => { kani::assume(!all_null);
                if let (ScalarValue::Int64(Some(lo)), ScalarValue::Int64(Some(hi))) = (&zmin, &zmax) { kani::assume(*lo <= x && x <= *hi); } }
        }
        let zone = ZoneMapStatistics { min: zmin, max: zmax, null_count, nan_count };
        let which: u8 = kani::any::<u8>() % 4;
        let (q, matches) = match which {
            0 => (SargableQuery::IsNull(), v.is_none()),
            1 => { let t = lit(); let m = match (&t, v) { (ScalarValue::Int64(Some(c)), Some(x)) => *c == x, _ => false }; (SargableQuery::Equals(t), m) }
            2 => { let lo = bound(); let hi = bound(); let m = match v { Some(x) => sat_lo(&lo, x) && sat_hi(&hi, x), None => false }; (SargableQuery::Range(lo, hi), m) }
            _ => { let a = lit(); let b = lit();
                   let m = match v { Some(x) => a == ScalarValue::Int64(Some(x)) || b == ScalarValue::Int64(Some(x)), None => false };
                   (SargableQuery::IsIn(vec![a, b]), m) }
        };
        let r = ZoneMapIndex.evaluate_zone_against_query(&zone, &q);
        if matches { assert!(matches!(r, Ok(true)), "zone holding a matching row is skipped"); }
        assert!(r.is_ok(), "accepted query kinds never error");
        kani::cover!(matches && which == 0);
        kani::cover!(matches && which == 1);
        kani::cover!(matches && which == 2);
        kani::cover!(matches && which == 3);
        kani::cover!(matches!(r, Ok(false)));
    }

    // ------------------------------------------------------------------ Float32 zones without NaN
    fn tle(a: f32, b: f32) -> bool { a.total_cmp(&b) != Ordering::Greater }
    fn tlt(a: f32, b: f32) -> bool { a.total_cmp(&b) == Ordering::Less }
    fn teq(a: f32, b: f32) -> bool { a.total_cmp(&b) == Ordering::Equal }
    /// query literals: any f32 (infinities, signed zeros, positive NaN) or NULL; negative NaN is not a literal
    /// any parser produces and is excluded (stated assumption)
    fn qf() -> f32 { let f: f32 = kani::any(); kani::assume(!(f.is_nan() && f.is_sign_negative())); f }
    fn flit() -> ScalarValue { if kani::any() { ScalarValue::Float32(Some(qf())) } else { ScalarValue::Float32(None) } }
    fn fbound() -> Bound<ScalarValue> { match kani::any::<u8>() % 3 { 0 => Bound::Unbounded, 1 => Bound::Included(ScalarValue::Float32(Some(qf()))), _ => Bound::Excluded(ScalarValue::Float32(Some(qf()))) } }
    fn fsat_lo(b: &Bound<ScalarValue>, x: f32) -> bool { match b { Bound::Unbounded => true, Bound::Included(ScalarValue::Float32(Some(s))) => tle(*s, x), Bound::Excluded(ScalarValue::Float32(Some(s))) => tlt(*s, x), _ => false } }
    fn fsat_hi(b: &Bound<ScalarValue>, x: f32) -> bool { match b { Bound::Unbounded => true, Bound::Included(ScalarValue::Float32(Some(s))) => tle(x, *s), Bound::Excluded(ScalarValue::Float32(Some(s))) => tlt(x, *s), _ => false } }

    /// same for a Float32 zone that holds no NaN (nan_count = 0, min/max not NaN), comparisons in IEEE total order
    /// (the order arrow's comparison kernels and datafusion's ScalarValue use); query literals may be NaN / inf / NULL.
    #[kani::proof]
    #[kani::unwind(4)]
    #[kani::stub(alloc::fmt::format, fmt_stub)]
    fn f32_zone_never_prunes_a_match() {
        let v: Option<f32> = if kani::any() { Some(kani::any()) } else { None };
        let null_count: u32 = kani::any(); let nan_count: u32 = 0;
        let all_null: bool = kani::any();
        let lo: f32 = kani::any(); let hi: f32 = kani::any();
        kani::assume(!lo.is_nan() && !hi.is_nan() && tle(lo, hi));
        let (zmin, zmax) = if all_null { (ScalarValue::Float32(None), ScalarValue::Float32(None)) } else {
            (ScalarValue::Float32(Some(lo)), ScalarValue::Float32(Some(hi))) };
        match v {
            None => kani::assume(null_count > 0),
            Some(x) => { kani::assume(!all_null && !x.is_nan() && tle(lo, x) && tle(x, hi)); }
        }
        let zone = ZoneMapStatistics { min: zmin, max: zmax, null_count, nan_count };
        let which: u8 = kani::any::<u8>() % 4;
        let (q, matches) = match which {
            0 => (SargableQuery::IsNull(), v.is_none()),
            1 => { let t = flit(); let m = match (&t, v) { (ScalarValue::Float32(Some(c)), Some(x)) => teq(*c, x), _ => false }; (SargableQuery::Equals(t), m) }
            2 => { let l = fbound(); let h = fbound(); let m = match v { Some(x) => fsat_lo(&l, x) && fsat_hi(&h, x), None => false }; (SargableQuery::Range(l, h), m) }
            _ => { let a = flit(); let b = flit();
                   let hit = |s: &ScalarValue, x: f32| matches!(s, ScalarValue::Float32(Some(c)) if teq(*c, x));
                   let m = match v { Some(x) => hit(&a, x) || hit(&b, x), None => false };
                   (SargableQuery::IsIn(vec![a, b]), m) }
        };
        let r = ZoneMapIndex.evaluate_zone_against_query(&zone, &q);
        if matches { assert!(matches!(r, Ok(true)), "zone holding a matching row is skipped"); }
        assert!(r.is_ok(), "accepted query kinds never error");
        kani::cover!(matches && which == 1);
        kani::cover!(matches && which == 2);
        kani::cover!(matches && which == 3);
        kani::cover!(matches!(r, Ok(false)));
    }

    // ------------------------------------------------------------------ Float64 zones without NaN
    fn tle64(a: f64, b: f64) -> bool { a.total_cmp(&b) != Ordering::Greater }
    fn tlt64(a: f64, b: f64) -> bool { a.total_cmp(&b) == Ordering::Less }
    fn teq64(a: f64, b: f64) -> bool { a.total_cmp(&b) == Ordering::Equal }
    /// query literals: any f64 (infinities, signed zeros, positive NaN) or NULL; negative NaN is not a literal
    /// any parser produces and is excluded (stated assumption)
    fn qf64() -> f64 { let f: f64 = kani::any(); kani::assume(!(f.is_nan() && f.is_sign_negative())); f }
    fn flit64() -> ScalarValue { if kani::any() { ScalarValue::Float64(Some(qf64())) } else { ScalarValue::Float64(None) } }
    fn fbound64() -> Bound<ScalarValue> { match kani::any::<u8>() % 3 { 0 => Bound::Unbounded, 1 => Bound::Included(ScalarValue::Float64(Some(qf64()))), _ => Bound::Excluded(ScalarValue::Float64(Some(qf64()))) } }
    fn fsat_lo64(b: &Bound<ScalarValue>, x: f64) -> bool { match b { Bound::Unbounded => true, Bound::Included(ScalarValue::Float64(Some(s))) => tle64(*s, x), Bound::Excluded(ScalarValue::Float64(Some(s))) => tlt64(*s, x), _ => false } }
    fn fsat_hi64(b: &Bound<ScalarValue>, x: f64) -> bool { match b { Bound::Unbounded => true, Bound::Included(ScalarValue::Float64(Some(s))) => tle64(x, *s), Bound::Excluded(ScalarValue::Float64(Some(s))) => tlt64(x, *s), _ => false } }

    /// same for a Float64 zone that holds no NaN (nan_count = 0, min/max not NaN), comparisons in IEEE total order
    /// (the order arrow's comparison kernels and datafusion's ScalarValue use); query literals may be NaN / inf / NULL.
    #[kani::proof]
    #[kani::unwind(4)]
    #[kani::stub(alloc::fmt::format, fmt_stub)]
    fn f64_zone_never_prunes_a_match() {
        let v: Option<f64> = if kani::any() { Some(kani::any()) } else { None };
        let null_count: u32 = kani::any(); let nan_count: u32 = 0;
        let all_null: bool = kani::any();
        let lo: f64 = kani::any(); let hi: f64 = kani::any();
        kani::assume(!lo.is_nan() && !hi.is_nan() && tle64(lo, hi));
        let (zmin, zmax) = if all_null { (ScalarValue::Float64(None), ScalarValue::Float64(None)) } else {
            (ScalarValue::Float64(Some(lo)), ScalarValue::Float64(Some(hi))) };
        match v {
            None => kani::assume(null_count > 0),
            Some(x) => { kani::assume(!all_null && !x.is_nan() && tle64(lo, x) && tle64(x, hi)); }
        }
        let zone = ZoneMapStatistics { min: zmin, max: zmax, null_count, nan_count };
        let which: u8 = kani::any::<u8>() % 4;
        let (q, matches) = match which {
            0 => (SargableQuery::IsNull(), v.is_none()),
            1 => { let t = flit64(); let m = match (&t, v) { (ScalarValue::Float64(Some(c)), Some(x)) => teq64(*c, x), _ => false }; (SargableQuery::Equals(t), m) }
            2 => { let l = fbound64(); let h = fbound64(); let m = match v { Some(x) => fsat_lo64(&l, x) && fsat_hi64(&h, x), None => false }; (SargableQuery::Range(l, h), m) }
            _ => { let a = flit64(); let b = flit64();
                   let hit = |s: &ScalarValue, x: f64| matches!(s, ScalarValue::Float64(Some(c)) if teq64(*c, x));
                   let m = match v { Some(x) => hit(&a, x) || hit(&b, x), None => false };
                   (SargableQuery::IsIn(vec![a, b]), m) }
        };
        let r = ZoneMapIndex.evaluate_zone_against_query(&zone, &q);
        if matches { assert!(matches!(r, Ok(true)), "zone holding a matching row is skipped"); }
        assert!(r.is_ok(), "accepted query kinds never error");
        kani::cover!(matches && which == 1);
        kani::cover!(matches && which == 2);
        kani::cover!(matches && which == 3);
        kani::cover!(matches!(r, Ok(false)));
    }

    /// a NULL literal or IS NULL only looks at null_count; a zone with NULL rows is never skipped for them,
    /// whatever the column type of the zone
    #[kani::proof]
    #[kani::unwind(4)]
    #[kani::stub(alloc::fmt::format, fmt_stub)]
    fn null_rows_are_found() {
        let null_count: u32 = kani::any();
        kani::assume(null_count > 0);
        let zone = ZoneMapStatistics { min: lit(), max: lit(), null_count, nan_count: kani::any() };
        let r1 = ZoneMapIndex.evaluate_zone_against_query(&zone, &SargableQuery::IsNull());
        assert!(matches!(r1, Ok(true)));
        kani::cover!(true);
    }
}
