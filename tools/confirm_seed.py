#!/usr/bin/env python3
"""confirm_seed.py <worktree> <patch.diff> <demo.rs> <rel-file> <inside|append> <crate> [demo-name-substr]
Confirms a seeded breaking change in a scratch worktree (never /repo):
  A. patch applied: crate compiles, existing tests pass (demo skipped), demo FAILS
  B. patch reverted: demo PASSES
Prints a JSON summary."""
import json, os, subprocess, sys
wt, patch, demo, rel, mode, crate = sys.argv[1:7]
sub = sys.argv[7] if len(sys.argv) > 7 else "demo"
env = dict(os.environ, CARGO_TARGET_DIR=os.path.join(wt, "target"), CARGO_NET_OFFLINE="true")
def sh(cmd):
    p = subprocess.run(cmd, shell=True, cwd=wt, env=env, stdout=subprocess.PIPE, stderr=subprocess.STDOUT, text=True)
    return p.returncode, p.stdout
def insert_demo():
    p = os.path.join(wt, rel)
    s = open(p).read()
    d = open(demo).read()
    if mode == "inside":
        i = s.rstrip().rfind("}")
        s = s[:i] + "\n" + d + "\n}\n"
    else:
        s = s + "\n" + d + "\n"
    open(p, "w").write(s)
out = {}
sh("git checkout -- .")
rc, o = sh("git apply %s" % patch); assert rc == 0, o
insert_demo()
rc, o = sh("cargo test --offline -p %s -- --skip %s 2>&1 | tail -15" % (crate, sub))
out["A_existing_tests_with_patch"] = [l for l in o.split("\n") if "test result" in l or "error" in l.lower()][:8]
rc, o = sh("cargo test --offline -p %s %s 2>&1 | tail -40" % (crate, sub))
out["A_demo_with_patch"] = [l for l in o.split("\n") if "test result" in l or "FAILED" in l or "panicked" in l][:8]
sh("git checkout -- .")
insert_demo()
rc, o = sh("cargo test --offline -p %s %s 2>&1 | tail -40" % (crate, sub))
out["B_demo_without_patch"] = [l for l in o.split("\n") if "test result" in l or "FAILED" in l][:8]
sh("git checkout -- .")
print(json.dumps(out, indent=1))
