"""Run one Verus unit: assemble from /repo, verify, canary batches, locks."""
import concurrent.futures as cf
import json
import os
import re
import time

import rsx
import vunit

ROOT = os.path.dirname(os.path.dirname(os.path.abspath(__file__)))


def _fn_texts(text):
    """crude map fn-name -> text for every fn in the assembled file (descends into verus!{} and impl
    blocks); names may repeat, texts are concatenated (conservative for the conflict graph)."""
    toks = rsx.lex(text)
    out = {}

    def walk(lo, hi):
        k = lo
        while k < hi:
            t = toks[k]
            if t.kind == "ident" and t.text == "fn":
                j = k + 1
                while toks[j].kind in rsx.TRIVIA:
                    j += 1
                name = toks[j].text
                # find body
                b = j
                body = None
                while b < hi:
                    tb = toks[b]
                    if tb.kind == "punct" and tb.text in ("(", "["):
                        b = rsx.match_close(toks, b) + 1
                        continue
                    if tb.kind == "punct" and tb.text == "{":
                        body = (b, rsx.match_close(toks, b))
                        break
                    if tb.kind == "punct" and tb.text == ";":
                        break
                    b += 1
                if body:
                    out[name] = out.get(name, "") + text[toks[k].start:toks[body[1]].end]
                    k = body[1] + 1
                    continue
            k += 1

    walk(0, len(toks))
    return out


def _mentions(text, name):
    return re.search(r"(?<![A-Za-z0-9_])" + re.escape(name) + r"(?![A-Za-z0-9_])", text) is not None


OPERATOR_FNS = {"not", "neg", "bitand", "bitor", "bitxor", "add", "sub", "mul", "div", "rem", "shl", "shr",
                "bitand_assign", "bitor_assign", "bitxor_assign", "add_assign", "sub_assign", "mul_assign",
                "index", "index_mut", "from", "into", "eq", "ne", "cmp", "partial_cmp", "deref", "deref_mut",
                "clone", "default", "next", "drop"}


def canary_batches(keys, texts):
    """keys: list of (key, simple_name). Greedy colouring so that no fn in a batch mentions another
    fn of the same batch (a falsified callee contract would make its caller's canary pass)."""
    batches = []
    for key, name in keys:
        placed = False
        if name in OPERATOR_FNS:
            # called through an operator / conversion, so textual mention cannot be seen: solo batch
            batches.append([(key, name)])
            continue
        for b in batches:
            ok = True
            for k2, n2 in b:
                if n2 in OPERATOR_FNS or n2 == name or _mentions(texts.get(name, ""), n2) or _mentions(texts.get(n2, ""), name):
                    ok = False
                    break
            if ok:
                b.append((key, name))
                placed = True
                break
        if not placed:
            batches.append([(key, name)])
    return batches


def classify(diags, fn_result):
    """given diagnostics attributed to a failing function decide 'failed' (proof failure) or
    'undecided' (resource / tool limit)."""
    msgs = " ".join(d["msg"] for d in diags)
    if any(m in msgs for m in vunit.RESOURCE_MSGS):
        return "undecided"
    if any(any(m in d["msg"] for m in vunit.PROOF_FAILURE_MSGS) for d in diags):
        return "failed"
    if not diags:
        return "failed" if fn_result and fn_result.get("success") is False else "undecided"
    return "undecided"


def _line_ranges(text):
    """fn name -> list of (first_line,last_line) in assembled text, using the same crude walker."""
    toks = rsx.lex(text)
    res = []
    k = 0
    n = len(toks)
    # track enclosing impl type for qualified names
    stack = []  # (close_idx, typename)
    while k < n:
        t = toks[k]
        while stack and k > stack[-1][0]:
            stack.pop()
        if t.kind == "ident" and t.text == "impl":
            j = k + 1
            hdr = []
            while j < n and toks[j].text != "{":
                if toks[j].kind == "punct" and toks[j].text in ("(", "["):
                    j = rsx.match_close(toks, j) + 1
                    continue
                if toks[j].kind not in rsx.TRIVIA:
                    hdr.append(toks[j].text)
                j += 1
            if j < n:
                h = " ".join(hdr)
                if " for " in " " + h + " ":
                    ty = h.split(" for ")[-1]
                else:
                    ty = h
                ty = re.sub(r"<.*", "", ty.replace(" ", "")).strip()
                ty = re.sub(r"^<[^>]*>", "", ty)
                ty = ty.split("where")[0]
                stack.append((rsx.match_close(toks, j), ty))
                k = j + 1
                continue
        if t.kind == "ident" and t.text == "fn":
            j = k + 1
            while toks[j].kind in rsx.TRIVIA:
                j += 1
            name = toks[j].text
            b = j
            while b < n:
                tb = toks[b]
                if tb.kind == "punct" and tb.text in ("(", "["):
                    b = rsx.match_close(toks, b) + 1
                    continue
                if tb.kind == "punct" and tb.text in ("{", ";"):
                    break
                b += 1
            if b < n and toks[b].text == "{":
                e = rsx.match_close(toks, b)
                l0 = text.count("\n", 0, toks[k].start) + 1
                l1 = text.count("\n", 0, toks[e].end) + 1
                q = (stack[-1][1] + "::" + name) if stack else name
                res.append((l0, l1, q))
                k = e + 1
                continue
        k += 1
    return res


def attribute(diags, ranges):
    """attach diagnostics to qualified fn names by line."""
    by = {}
    for d in diags:
        if d["level"] != "error" or d["line"] is None:
            continue
        owner = None
        for l0, l1, q in ranges:
            if l0 <= d["line"] <= l1:
                owner = q
        by.setdefault(owner, []).append(d)
    return by


def run_unit(u, repo, tier, seed, relock=False):
    t0 = time.time()
    name = u["name"]
    bdir = os.path.join(ROOT, "build", "verus", name)
    os.makedirs(bdir, exist_ok=True)
    tpl = open(os.path.join(u["dir"], u.get("template", "unit.rs"))).read()
    res = {"unit": name, "backend": "verus", "backend_label": "verus(z3)", "obligations": [], "undecided": [],
           "assumptions": [], "functions_under_contract": [], "rewrites": {}, "canaries": {}}
    try:
        asm = vunit.assemble(repo, tpl)
    except (rsx.ExtractError, ValueError) as e:
        res["undecided"].append("extraction failed: %s" % e)
        res["wall_s"] = time.time() - t0
        return res
    path = os.path.join(bdir, name.replace("-", "_") + ".rs")
    open(path, "w").write(asm.text)
    rlimit = u.get("rlimit", 30)
    vr = vunit.run_verus(path, rlimit=rlimit)
    res["checker_cmd"] = vr["cmd"]
    res["verus"] = {k: vr.get(k) for k in ("verified", "errors", "smt_ms", "total_ms", "verus_version", "status")}
    res["rewrites"] = asm.rewrites
    res["functions_under_contract"] = [
        {"unit": name, "address": f["address"], "file": f["file"].replace(repo.rstrip("/") + "/", ""), "line": f["line"],
         "sha256_of_extracted_text": f["sha256"], "contracted": f["contracted"], "rewrites": f["rewrites"]}
        for f in asm.functions]
    diags = vunit.parse_diagnostics(vr.get("stderr", ""))
    if vr["status"] != "ok":
        errs = [d for d in diags if d["level"] == "error"][:3]
        res["undecided"].append("verus front end did not accept the assembled file (%s): %s" % (
            vr["status"], " || ".join(d["block"][:600] for d in errs) or vr.get("stderr", "")[-600:]))
        res["wall_s"] = time.time() - t0
        return res

    ranges = _line_ranges(asm.text)
    by = attribute(diags, ranges)
    lock_path = os.path.join(u["dir"], "obligations.lock")
    lock = [l.strip() for l in open(lock_path)] if os.path.exists(lock_path) else []
    lock = [l for l in lock if l and not l.startswith("#")]
    contract_of = {}
    source_of = {}
    for f in asm.functions:
        if f["fn_name"]:
            contract_of[f["fn_name"]] = f.get("contract", "")
            source_of[f["fn_name"]] = {"file": f["file"], "line": f["line"], "address": f["address"]}

    funcs = vr["functions"]
    if relock:
        bad = [k for k, v in funcs.items() if not v["success"]]
        if bad:
            res["undecided"].append("relock refused: failing obligations %s" % bad)
        else:
            open(lock_path, "w").write("# obligations green on the pinned tree (written by ./check --relock)\n" +
                                       "".join(sorted(funcs)[i] + "\n" for i in range(len(funcs))))
            lock = sorted(funcs)
    # the per-function breakdown does not cover side queries (by(bit_vector), by(nonlinear_arith), by(compute)):
    # an error diagnostic located inside a function makes that function's obligation fail as well
    # verus names fns of impls on foreign types `impl&%N::f`; alias our `Type::f` to it when unambiguous
    for q in list(by.keys()):
        if q is not None and q not in funcs:
            short = q.split("::")[-1]
            cands = [k for k in funcs if k.startswith("impl&%") and k.endswith("::" + short)]
            if len(cands) == 1:
                by.setdefault(cands[0], []).extend(by.pop(q))
    for q, ds in by.items():
        if q is not None and any(d["level"] == "error" for d in ds):
            if q in funcs:
                funcs[q]["success"] = False
            else:
                funcs[q] = {"success": False, "mode": "?", "time_us": 0, "rlimit": 0}
    if (vr.get("errors") or 0) > 0 and all(v["success"] for v in funcs.values()):
        res["undecided"].append("verus reported %s error(s) that could not be attributed to an obligation: %s" % (
            vr.get("errors"), " || ".join(d["block"][:300] for d in diags if d["level"] == "error")[:1200]))
    for oname in sorted(set(funcs) | set(lock)):
        fr = funcs.get(oname)
        o = {"id": oname, "contract": contract_of.get(oname, ""), "source": source_of.get(oname),
             "time_s": (fr["time_us"] / 1e6) if fr else 0.0}
        if fr is None:
            o["status"] = "undecided"
            o["detail"] = "obligation in lock but not generated on this run (item renamed or removed)"
        elif fr["success"]:
            # a discharged obligation that is not in the lock (a new const / fn) is harmless: it counts as
            # discharged; only a FAILING unlocked obligation is undecided instead of a violation
            o["status"] = "discharged"
            if oname not in lock:
                o["unlocked"] = True
        else:
            ds = by.get(oname, [])
            if not ds:
                # unattributed diagnostics: fall back to any whose block mentions the fn name
                short = oname.split("::")[-1]
                ds = [d for d in diags if d["level"] == "error" and ("fn " + short) in d["block"]]
            st = classify(ds, fr)
            if st == "failed" and oname not in lock:
                st = "undecided"
            o["status"] = st
            o["detail"] = "\n".join(d["block"] for d in ds)[:4000] or "verus reported failure for this function"
        res["obligations"].append(o)

    # ---------------- vacuity guard: canary batches
    keys = []
    for f in asm.functions:
        if f.get("contracted") and not f.get("nocanary") and f["fn_name"]:
            keys.append((f["address"], f["fn_name"].split("::")[-1], f["fn_name"]))
    for ln in asm.lemmas:
        keys.append(("lemma:" + ln, ln, ln))
    texts = _fn_texts(asm.text)
    batches = canary_batches([(k, s) for k, s, _ in keys], texts)
    qual = {k: q for k, _, q in keys}
    canary_ok = 0
    canary_bad = []

    def run_batch(i, batch):
        try:
            a2 = vunit.assemble(repo, tpl, canary_set=set(k for k, _ in batch))
        except Exception as e:  # pragma: no cover
            return i, None, str(e)
        p2 = os.path.join(bdir, "canary_%d" % i, "canary_%d.rs" % i)
        os.makedirs(os.path.dirname(p2), exist_ok=True)
        open(p2, "w").write(a2.text)
        return i, vunit.run_verus(p2, rlimit=rlimit), None

    with cf.ThreadPoolExecutor(max_workers=4) as ex:
        futs = [ex.submit(run_batch, i, b) for i, b in enumerate(batches)]
        for fu in futs:
            i, r2, err = fu.result()
            if r2 is None or r2["status"] != "ok":
                res["undecided"].append("canary batch %d did not run: %s" % (i, err or r2.get("status")))
                continue
            for k, s in batches[i]:
                q = qual[k]
                fr = r2["functions"].get(q)
                if fr is None:
                    res["undecided"].append("canary: no result for %s" % q)
                elif fr["success"]:
                    canary_bad.append(q)
                else:
                    canary_ok += 1
    res["canaries"] = {"generated": len(keys), "failed_as_required": canary_ok, "batches": len(batches),
                       "verified_unexpectedly": canary_bad}
    if canary_bad:
        res["undecided"].append("VACUOUS: `ensures false` canary verified for %s" % canary_bad)

    # ---------------- assumption scan + lock
    found = sorted(set(vunit.scan_assumptions(asm.text)))
    res["assumptions"] = found
    alock_path = os.path.join(u["dir"], "assumptions.lock")
    if relock:
        open(alock_path, "w").write("".join(a + "\n" for a in found))
    alock = [l.rstrip("\n") for l in open(alock_path)] if os.path.exists(alock_path) else []
    new = [a for a in found if a not in alock]
    if new:
        res["undecided"].append("assumption(s) not in assumptions.lock: %s" % new)

    # ---------------- thorough: stability re-check (never a violation)
    if tier == "thorough":
        vr2 = vunit.run_verus(path, rlimit=max(5, rlimit // 2), extra=["--smt-option", "smt.random_seed=%d" % (seed or 7)])
        unstable = [k for k, v in vr2.get("functions", {}).items() if not v["success"] and funcs.get(k, {}).get("success")]
        res["stability"] = {"rlimit": max(5, rlimit // 2), "seed": seed or 7, "unstable": unstable}
        # reported in the evidence only: a proof that needs the full rlimit is a maintenance warning, not a verdict
        # (the registered rlimit run above already discharged the obligation)
    res["wall_s"] = time.time() - t0
    return res
