#!/usr/bin/env python3
"""rsx — Rust-aware extractor and annotation weaver (python3 only, no deps).

Everything the verifiers see of /repo goes through this module on every run:

  * a real lexer (nested block comments, raw / byte strings, char literals vs
    lifetimes) and a brace matcher;
  * structural item addressing:   <file> :: <selector> :: <selector> ...
        impl RowIdMask                      (impl header, whitespace-normalised)
        impl std::ops::Not for RowIdMask
        fn not | struct X | enum X | const X | static X | mod m | trait T | type T
        arm "Self::And"                      (match arm whose pattern text starts with ...)
        match#1 | stmts#a..b | loopbody#k    (region slicing, R7)
  * the named rewrites R1..R7 of DESIGN.md section 3.2 -- each application is
    counted and reported, nothing else is ever changed in the extracted text;
  * weaving of contract text at structural positions (signature, k-th loop,
    statement ordinals), never by text match on executable code.

A lost anchor raises ExtractError; callers turn that into exit 2 (UNDECIDED).
"""
import hashlib
import re
import sys


class ExtractError(Exception):
    pass


# --------------------------------------------------------------------------- lexer

class Tok:
    __slots__ = ("kind", "text", "start", "end")

    def __init__(self, kind, text, start, end):
        self.kind, self.text, self.start, self.end = kind, text, start, end

    def __repr__(self):
        return "Tok(%s,%r)" % (self.kind, self.text)


_IDENT_START = set("abcdefghijklmnopqrstuvwxyzABCDEFGHIJKLMNOPQRSTUVWXYZ_")
_IDENT_CONT = _IDENT_START | set("0123456789")
_PUNCT3 = ("<<=", ">>=", "...", "..=")
_PUNCT2 = ("::", "->", "=>", "==", "!=", "<=", ">=", "&&", "||", "+=", "-=", "*=", "/=",
           "%=", "^=", "&=", "|=", "<<", ">>", "..")


def lex(src):
    """Tokenise Rust source.  Kinds: ws, lcomment, bcomment, doc (/// //! /** /*!),
    str, char, lifetime, ident, num, punct."""
    toks = []
    i, n = 0, len(src)
    while i < n:
        c = src[i]
        if c in " \t\r\n":
            j = i + 1
            while j < n and src[j] in " \t\r\n":
                j += 1
            toks.append(Tok("ws", src[i:j], i, j))
            i = j
            continue
        if src.startswith("//", i):
            j = src.find("\n", i)
            if j < 0:
                j = n
            text = src[i:j]
            kind = "doc" if (text.startswith("///") and not text.startswith("////")) or text.startswith("//!") else "lcomment"
            toks.append(Tok(kind, text, i, j))
            i = j
            continue
        if src.startswith("/*", i):
            depth, j = 1, i + 2
            while j < n and depth:
                if src.startswith("/*", j):
                    depth += 1
                    j += 2
                elif src.startswith("*/", j):
                    depth -= 1
                    j += 2
                else:
                    j += 1
            text = src[i:j]
            kind = "doc" if (text.startswith("/**") and not text.startswith("/***") and text != "/**/") or text.startswith("/*!") else "bcomment"
            toks.append(Tok(kind, text, i, j))
            i = j
            continue
        # raw strings r"..", r#".."#, br#".."#, and byte strings b"..", c".."
        m = re.compile(r'(?:b|c)?r(#*)"').match(src, i)
        if m:
            hashes = m.group(1)
            close = '"' + hashes
            j = src.find(close, m.end())
            if j < 0:
                raise ExtractError("unterminated raw string at %d" % i)
            j += len(close)
            toks.append(Tok("str", src[i:j], i, j))
            i = j
            continue
        if c == '"' or (c in "bc" and i + 1 < n and src[i + 1] == '"'):
            j = i + (1 if c == '"' else 2)
            while j < n and src[j] != '"':
                j += 2 if src[j] == "\\" else 1
            j += 1
            toks.append(Tok("str", src[i:j], i, j))
            i = j
            continue
        if c == "'" or (c == "b" and i + 1 < n and src[i + 1] == "'"):
            k = i + (1 if c == "'" else 2)
            # char literal: '\..' or 'x' followed by closing quote; otherwise lifetime
            if k < n and src[k] == "\\":
                j = k + 2
                while j < n and src[j] != "'":
                    j += 1
                j += 1
                toks.append(Tok("char", src[i:j], i, j))
                i = j
                continue
            if k + 1 < n and src[k + 1] == "'" and src[k] != "'":
                j = k + 2
                toks.append(Tok("char", src[i:j], i, j))
                i = j
                continue
            if c == "'":
                # multi-byte char literal like 'é' is handled above (python str); lifetime
                j = k
                while j < n and src[j] in _IDENT_CONT:
                    j += 1
                toks.append(Tok("lifetime", src[i:j], i, j))
                i = j
                continue
        if c in _IDENT_START:
            j = i + 1
            while j < n and src[j] in _IDENT_CONT:
                j += 1
            # raw identifier r#name
            if src[i:j] == "r" and src.startswith("#", j) and j + 1 < n and src[j + 1] in _IDENT_START:
                j += 1
                while j < n and src[j] in _IDENT_CONT:
                    j += 1
            toks.append(Tok("ident", src[i:j], i, j))
            i = j
            continue
        if c.isdigit():
            j = i + 1
            while j < n and (src[j] in _IDENT_CONT or (src[j] == "." and j + 1 < n and src[j + 1].isdigit()
                                                       and not src.startswith("..", j))):
                j += 1
            toks.append(Tok("num", src[i:j], i, j))
            i = j
            continue
        for table in (_PUNCT3, _PUNCT2):
            hit = next((p for p in table if src.startswith(p, i)), None)
            if hit:
                break
        if hit:
            toks.append(Tok("punct", hit, i, i + len(hit)))
            i += len(hit)
            continue
        toks.append(Tok("punct", c, i, i + 1))
        i += 1
    return toks


TRIVIA = ("ws", "lcomment", "bcomment", "doc")


def code_indices(toks, lo=0, hi=None):
    hi = len(toks) if hi is None else hi
    return [k for k in range(lo, hi) if toks[k].kind not in TRIVIA]


_OPEN = {"(": ")", "[": "]", "{": "}"}
_CLOSE = {")", "]", "}"}


def match_close(toks, k):
    """toks[k] is an opening bracket; return index of its matching close."""
    depth = 0
    for j in range(k, len(toks)):
        t = toks[j]
        if t.kind != "punct":
            continue
        if t.text in _OPEN:
            depth += 1
        elif t.text in _CLOSE:
            depth -= 1
            if depth == 0:
                return j
    raise ExtractError("unbalanced bracket at byte %d" % toks[k].start)


# --------------------------------------------------------------------------- items

ITEM_KW = ("fn", "struct", "enum", "union", "impl", "const", "static", "mod", "trait", "type", "use",
           "macro_rules", "extern")
_MODIFIERS = ("pub", "unsafe", "async", "default", "extern")


class Item:
    """A Rust item located in a token stream.  [tstart, tend) token range includes
    leading attributes and doc comments; body_open/body_close are token indices of
    the braces (or None for `;`-terminated items)."""

    def __init__(self, kind, name, header, tstart, kwtok, body_open, body_close, tend):
        self.kind, self.name, self.header = kind, name, header
        self.tstart, self.kwtok, self.body_open, self.body_close, self.tend = tstart, kwtok, body_open, body_close, tend

    def __repr__(self):
        return "Item(%s %s)" % (self.kind, self.name or self.header)


def _norm(s):
    s = re.sub(r"\s+", " ", s.strip())
    s = re.sub(r"\s*(::|<|>|,|&|\(|\))\s*", lambda m: m.group(1) if m.group(1) != "," else ", ", s)
    return s.strip()


def parse_items(toks, lo, hi):
    """Items directly inside token range [lo,hi) (a file, a mod body or an impl body)."""
    items = []
    k = lo
    while k < hi:
        t = toks[k]
        if t.kind in ("ws", "lcomment", "bcomment"):
            k += 1
            continue
        start = k
        # leading docs and attributes
        while k < hi and (toks[k].kind in TRIVIA or (toks[k].kind == "punct" and toks[k].text == "#")):
            if toks[k].kind == "punct":
                j = k + 1
                if j < hi and toks[j].kind == "punct" and toks[j].text == "!":
                    j += 1
                while j < hi and toks[j].kind in TRIVIA:
                    j += 1
                if j < hi and toks[j].text == "[":
                    k = match_close(toks, j) + 1
                    continue
                break
            k += 1
        if k >= hi:
            break
        # modifiers
        kw = k
        while kw < hi:
            tt = toks[kw]
            if tt.kind in TRIVIA:
                kw += 1
                continue
            if tt.kind == "ident" and tt.text in ("pub",):
                kw += 1
                j = kw
                while j < hi and toks[j].kind in TRIVIA:
                    j += 1
                if j < hi and toks[j].text == "(":
                    kw = match_close(toks, j) + 1
                continue
            if tt.kind == "ident" and tt.text in ("unsafe", "async", "default"):
                kw += 1
                continue
            if tt.kind == "ident" and tt.text == "const":
                # `const fn` vs `const X: T`
                j = kw + 1
                while j < hi and toks[j].kind in TRIVIA:
                    j += 1
                if j < hi and toks[j].kind == "ident" and toks[j].text in ("fn", "unsafe", "async", "extern"):
                    kw = j
                    continue
                break
            if tt.kind == "ident" and tt.text == "extern":
                j = kw + 1
                while j < hi and toks[j].kind in TRIVIA:
                    j += 1
                if j < hi and toks[j].kind == "str":
                    j += 1
                    while j < hi and toks[j].kind in TRIVIA:
                        j += 1
                if j < hi and toks[j].kind == "ident" and toks[j].text == "fn":
                    kw = j
                    continue
                break
            break
        if kw >= hi:
            break
        kwt = toks[kw]
        kind = kwt.text if kwt.kind == "ident" else None
        # find end of item: first `{` or `;` at bracket depth 0 (angle brackets are not
        # tracked: `{`/`;` cannot appear inside generics except in const-generic blocks)
        j = kw
        depth = 0
        body_open = body_close = None
        end = None
        while j < hi:
            tj = toks[j]
            if tj.kind == "punct":
                if tj.text in ("(", "["):
                    j = match_close(toks, j) + 1
                    continue
                if tj.text == "{":
                    body_open = j
                    body_close = match_close(toks, j)
                    end = body_close + 1
                    break
                if tj.text == ";":
                    end = j + 1
                    break
            j += 1
        if end is None:
            end = hi
        # `const X: T = expr { .. };`, `static`, `type`, `use {..};` and macro invocations
        # terminated by `;` after a brace group
        if kind in ("const", "static", "type", "use") or kind not in ITEM_KW:
            j = kw
            while j < hi:
                tj = toks[j]
                if tj.kind == "punct" and tj.text in _OPEN:
                    j = match_close(toks, j) + 1
                    # a macro invocation item `foo! { .. }` ends at the brace
                    if kind not in ITEM_KW and toks[j - 1].text == "}":
                        break
                    continue
                if tj.kind == "punct" and tj.text == ";":
                    j += 1
                    break
                j += 1
            end = j
            body_open = body_close = None
        name = None
        header = None
        if kind in ITEM_KW:
            ci = code_indices(toks, kw + 1, end)
            if kind == "impl":
                stop = body_open if body_open is not None else end
                header = _norm("impl " + "".join(toks[x].text if toks[x].kind not in TRIVIA else " "
                                                 for x in range(kw + 1, stop)))
                # drop where clause for matching purposes
                header = re.sub(r" where .*$", "", header)
            elif kind == "macro_rules":
                name = next((toks[x].text for x in ci if toks[x].kind == "ident"), None)
            elif ci:
                if kind in ("const", "static") and toks[ci[0]].text == "mut":
                    ci = ci[1:]
                name = toks[ci[0]].text if toks[ci[0]].kind == "ident" else None
        items.append(Item(kind, name, header, start, kw, body_open, body_close, end))
        k = end
    return items


class Source:
    def __init__(self, path, text=None):
        self.path = path
        self.text = open(path, encoding="utf-8").read() if text is None else text
        self.toks = lex(self.text)

    def line_of(self, tokidx):
        return self.text.count("\n", 0, self.toks[tokidx].start) + 1


def _select_item(src, scope, sel):
    """scope = (lo,hi) token range; sel like `fn name`, `impl Hdr`, `struct X`; optional `#n`
    suffix picks the n-th match (1-based) when a selector is legitimately repeated."""
    sel = sel.strip()
    nth = None
    m = re.match(r"^(.*?)\s*#(\d+)$", sel)
    if m and not sel.startswith("match") and not sel.startswith("stmts"):
        sel, nth = m.group(1).strip(), int(m.group(2))
    items = parse_items(src.toks, scope[0], scope[1])
    kind = re.match(r"^[a-z_]+", sel).group(0)
    cands = []
    if kind == "impl":
        want = _norm(sel)
        for it in items:
            if it.kind == "impl":
                h = it.header
                # allow generic-parameter-free matching: `impl<T> Foo<T>` addressed as `impl<T> Foo<T>`
                if h == want:
                    cands.append(it)
    else:
        want = sel.split()[1] if len(sel.split()) > 1 else None
        for it in items:
            if it.kind == kind and it.name == want:
                cands.append(it)
    if not cands:
        raise ExtractError("anchor lost: %s :: %s not found" % (src.path, sel))
    if nth is not None:
        if nth > len(cands):
            raise ExtractError("anchor lost: %s :: %s #%d (only %d)" % (src.path, sel, nth, len(cands)))
        return cands[nth - 1]
    if len(cands) > 1:
        raise ExtractError("anchor ambiguous: %s :: %s (%d matches)" % (src.path, sel, len(cands)))
    return cands[0]


# ---- expression-level navigation (only for R7 region slicing)

def _find_matches(toks, lo, hi):
    """indices of `match` keyword tokens in [lo,hi) in source order (all nesting levels)."""
    return [k for k in range(lo, hi) if toks[k].kind == "ident" and toks[k].text == "match"]


def _match_body(toks, k, hi):
    """for `match` at k: return (open, close) of its arm block."""
    j = k + 1
    while j < hi:
        t = toks[j]
        if t.kind == "punct" and t.text in ("(", "["):
            j = match_close(toks, j) + 1
            continue
        if t.kind == "punct" and t.text == "{":
            return j, match_close(toks, j)
        j += 1
    raise ExtractError("match without body")


def match_arms(toks, open_, close):
    """split arm block into arms: list of (pat_lo, arrow_idx, body_lo, body_hi) token ranges."""
    arms = []
    k = open_ + 1
    while k < close:
        while k < close and toks[k].kind in TRIVIA:
            k += 1
        if k >= close:
            break
        pat_lo = k
        # skip attributes on arms
        j = k
        arrow = None
        while j < close:
            t = toks[j]
            if t.kind == "punct" and t.text in _OPEN:
                j = match_close(toks, j) + 1
                continue
            if t.kind == "punct" and t.text == "=>":
                arrow = j
                break
            j += 1
        if arrow is None:
            break
        b = arrow + 1
        while b < close and toks[b].kind in TRIVIA:
            b += 1
        if toks[b].kind == "punct" and toks[b].text == "{":
            e = match_close(toks, b) + 1
            # optional trailing comma
            j = e
            while j < close and toks[j].kind in TRIVIA:
                j += 1
            nxt = j + 1 if j < close and toks[j].text == "," else e
            arms.append((pat_lo, arrow, b, e))
            k = nxt
        else:
            j = b
            while j < close:
                t = toks[j]
                if t.kind == "punct" and t.text in _OPEN:
                    j = match_close(toks, j) + 1
                    continue
                if t.kind == "punct" and t.text == ",":
                    break
                j += 1
            arms.append((pat_lo, arrow, b, j))
            k = j + 1
    return arms


def top_level_statements(toks, open_, close):
    """token ranges of the statements directly inside block (open_,close)."""
    out = []
    k = open_ + 1
    while k < close:
        while k < close and toks[k].kind in TRIVIA:
            k += 1
        if k >= close:
            break
        lo = k
        j = k
        last_brace_end = None
        while j < close:
            t = toks[j]
            if t.kind == "punct" and t.text in _OPEN:
                e = match_close(toks, j)
                if t.text == "{":
                    last_brace_end = e
                j = e + 1
                # a block-like expression statement (if/match/loop/for/while/unsafe/{}) ends at `}`
                # unless followed by `.`, `?`, an operator or `else`
                if t.text == "{":
                    n = j
                    while n < close and toks[n].kind in TRIVIA:
                        n += 1
                    first = toks[lo].text
                    if n >= close:
                        break
                    nt = toks[n]
                    if first in ("if", "match", "loop", "for", "while", "unsafe", "{") or \
                            (toks[lo].kind == "lifetime"):
                        if nt.kind == "ident" and nt.text == "else":
                            continue
                        if nt.kind == "punct" and nt.text in (".", "?", ";"):
                            continue
                        break
                continue
            if t.kind == "punct" and t.text == ";":
                j += 1
                break
            j += 1
        out.append((lo, min(j, close)))
        k = min(j, close)
    return out


def find_loops(toks, lo, hi):
    """(kw_index, body_open, body_close) of every loop in [lo,hi) in source order."""
    loops = []
    k = lo
    while k < hi:
        t = toks[k]
        if t.kind == "ident" and t.text in ("while", "loop", "for"):
            if t.text == "for":
                # `for<'a>` (HRTB) is not a loop
                n = k + 1
                while n < hi and toks[n].kind in TRIVIA:
                    n += 1
                if n < hi and toks[n].text == "<":
                    k += 1
                    continue
            j = k + 1
            while j < hi:
                tj = toks[j]
                if tj.kind == "punct" and tj.text in ("(", "["):
                    j = match_close(toks, j) + 1
                    continue
                if tj.kind == "punct" and tj.text == "{":
                    break
                j += 1
            if j < hi:
                loops.append((k, j, match_close(toks, j)))
        k += 1
    return loops


# --------------------------------------------------------------------------- extraction

class Extracted:
    """Result of extracting one address: text plus bookkeeping for evidence."""

    def __init__(self, address, path, line, raw, text, rewrites):
        self.address, self.path, self.line = address, path, line
        self.raw = raw          # verbatim bytes cut from /repo
        self.text = text        # after rewrites / weaving
        self.rewrites = rewrites  # dict rewrite-id -> count
        self.sha256 = hashlib.sha256(raw.encode()).hexdigest()


_R1_ATTRS = re.compile(r"^(derive|inline|allow|instrument|async_recursion|must_use|cfg_attr|doc|deprecated|"
                       r"tracing::instrument|expect|warn|deny|cold|track_caller|repr)\b")


def _count(rw, key, n=1):
    if n:
        rw[key] = rw.get(key, 0) + n


def apply_token_rewrites(toks, lo, hi, rules, rw, keep_repr=True):
    """Return text of toks[lo:hi] with the token-level rewrites in `rules` applied.
    rules: set of names among R1, R4, R5, R6 (R2/R3/R7 are structural, done by callers)."""
    out = []
    k = lo
    LOGGING = {"info", "warn", "debug", "trace", "error"}
    while k < hi:
        t = toks[k]
        if "R1" in rules:
            if t.kind == "doc":
                _count(rw, "R1.doc_comment")
                k += 1
                continue
            if t.kind == "punct" and t.text == "#":
                j = k + 1
                while j < hi and toks[j].kind in TRIVIA:
                    j += 1
                if j < hi and toks[j].text == "[":
                    e = match_close(toks, j)
                    inner = "".join(x.text for x in toks[j + 1:e]).strip()
                    if _R1_ATTRS.match(inner) and not (keep_repr and inner.startswith("repr")):
                        _count(rw, "R1.attr." + inner.split("(")[0].split("=")[0].strip())
                        k = e + 1
                        continue
            if t.kind == "ident" and t.text == "pub":
                j = k + 1
                while j < hi and toks[j].kind in TRIVIA:
                    j += 1
                if j < hi and toks[j].text == "(":
                    e = match_close(toks, j)
                    out.append("pub")
                    _count(rw, "R1.pub_restricted_to_pub")
                    k = e + 1
                    continue
        if t.kind == "ident" and k + 1 < hi and toks[k + 1].text == "!" and \
                (k + 2 < hi and toks[k + 2].text in ("(", "[", "{")):
            name = t.text
            # path-qualified macro: look back for `log::` / `tracing::`
            openk = k + 2
            e = match_close(toks, openk)
            if "R5" in rules and (name in LOGGING or name == "event"):
                # statement-level only: previous code token is `;` `{` `}` and next is `;`
                p = len(out) - 1
                q = k - 1
                while q >= lo and toks[q].kind in TRIVIA:
                    q -= 1
                # swallow `log::` / `tracing::` prefix
                prefix_start = k
                if q - 1 >= lo and toks[q].text == "::" and toks[q - 1].kind == "ident" and \
                        toks[q - 1].text in ("log", "tracing"):
                    prefix_start = q - 1
                    q = q - 2
                    while q >= lo and toks[q].kind in TRIVIA:
                        q -= 1
                n = e + 1
                while n < hi and toks[n].kind in TRIVIA:
                    n += 1
                prev_ok = q < lo or toks[q].text in (";", "{", "}")
                if prev_ok and n < hi and toks[n].text == ";":
                    # remove already-emitted prefix tokens
                    drop = k - prefix_start
                    if drop:
                        # out holds one entry per token emitted since prefix_start
                        del out[len(out) - _emitted_since(toks, prefix_start, k):]
                    _count(rw, "R5.logging_statement." + name)
                    k = n + 1
                    continue
            if "R4" in rules and name in ("assert_ne", "assert_eq", "debug_assert_ne", "debug_assert_eq"):
                args = _split_args(toks, openk + 1, e)
                if len(args) >= 2:
                    a = "".join(x.text for x in toks[args[0][0]:args[0][1]]).strip()
                    b = "".join(x.text for x in toks[args[1][0]:args[1][1]]).strip()
                    op = "!=" if name.endswith("_ne") else "=="
                    out.append("assert((%s) %s (%s))" % (a, op, b))
                    _count(rw, "R4." + name)
                    k = e + 1
                    continue
            if "R4" in rules and name in ("assert", "debug_assert"):
                args = _split_args(toks, openk + 1, e)
                a = "".join(x.text for x in toks[args[0][0]:args[0][1]]).strip()
                out.append("assert(%s)" % a)
                _count(rw, "R4." + name)
                k = e + 1
                continue
            if "R6" in rules and name == "format":
                out.append("String::new()")
                _count(rw, "R6.format_to_empty_string")
                k = e + 1
                continue
        out.append(t.text)
        k += 1
    return "".join(out)


def _emitted_since(toks, a, b):
    return b - a


def _split_args(toks, lo, hi):
    """split token range at top-level commas -> list of (lo,hi)."""
    args = []
    k = lo
    cur = lo
    while k < hi:
        t = toks[k]
        if t.kind == "punct" and t.text in _OPEN:
            k = match_close(toks, k) + 1
            continue
        if t.kind == "punct" and t.text == ",":
            args.append((cur, k))
            cur = k + 1
        k += 1
    if cur < hi:
        args.append((cur, hi))
    return args


def resolve(repo, address):
    """address = 'relative/file.rs :: sel :: sel ...' -> (Source, lo, hi, Item|None, kind)

    kind is 'item' (a whole item) or 'region' (an expression / statement range)."""
    parts = [p.strip() for p in address.split("::")]
    # re-join `std::ops::Not`-style paths that were split: a selector starts with a keyword
    KW = ("impl", "fn", "struct", "enum", "union", "const", "static", "mod", "trait", "type", "arm", "match",
          "stmts", "loopbody", "macro_rules", "use")
    sels = []
    fpath = parts[0]
    for p in parts[1:]:
        kwm = re.match(r"^([a-z_]+)\b", p)
        if (kwm and kwm.group(1) in KW) or p.startswith("match#") or p.startswith("stmts#") or p.startswith("loopbody#"):
            sels.append(p)
        else:
            if not sels:
                raise ExtractError("bad address %r" % address)
            sels[-1] = sels[-1] + "::" + p
    src = _load(repo, fpath)
    scope = (0, len(src.toks))
    item = None
    kind = "item"
    region = None
    for sel in sels:
        head = re.match(r"^([a-z_]+)", sel).group(1) if not sel.startswith(("match#", "stmts#", "loopbody#")) else sel.split("#")[0]
        if head in ("arm", "match", "stmts", "loopbody"):
            if region is None:
                if item is None or item.body_open is None:
                    raise ExtractError("region selector without enclosing fn: %s" % address)
                region = (item.body_open, item.body_close + 1)
            toks = src.toks
            if head == "match":
                n = int(sel.split("#")[1])
                ms = _find_matches(toks, region[0], region[1])
                if n > len(ms):
                    raise ExtractError("anchor lost: %s (only %d match expressions)" % (address, len(ms)))
                o, c = _match_body(toks, ms[n - 1], region[1])
                region = (ms[n - 1], c + 1)
            elif head == "arm":
                want = sel[len("arm"):].strip().strip('"')
                ms = _find_matches(toks, region[0], region[1])
                if not ms:
                    raise ExtractError("anchor lost: %s (no match)" % address)
                o, c = _match_body(toks, ms[0], region[1])
                found = None
                for (pl, ar, bl, bh) in match_arms(toks, o, c):
                    pat = _norm("".join(x.text for x in toks[pl:ar]))
                    if pat.startswith(_norm(want)):
                        if found is not None:
                            raise ExtractError("anchor ambiguous: %s" % address)
                        found = (bl, bh)
                if found is None:
                    raise ExtractError("anchor lost: %s (arm %s)" % (address, want))
                region = found
            elif head == "loopbody":
                # R7: the statements of the body block of the n-th loop (source order) of the current region,
                # without the loop header and the braces
                n = int(sel.split("#")[1])
                ls = find_loops(toks, region[0], region[1])
                if n > len(ls):
                    raise ExtractError("anchor lost: %s (only %d loops)" % (address, len(ls)))
                kw, bo, bc = ls[n - 1]
                region = (bo + 1, bc)
            elif head == "stmts":
                m = re.match(r"stmts#(\d+)\.\.(\d+)", sel)
                a, b = int(m.group(1)), int(m.group(2))
                # region must be a block
                o = region[0]
                while toks[o].kind in TRIVIA:
                    o += 1
                if toks[o].text != "{":
                    raise ExtractError("stmts selector on non-block: %s" % address)
                st = top_level_statements(toks, o, match_close(toks, o))
                if b > len(st):
                    raise ExtractError("anchor lost: %s (only %d statements)" % (address, len(st)))
                region = (st[a - 1][0], st[b - 1][1])
            kind = "region"
            continue
        item = _select_item(src, scope, sel)
        if item.body_open is not None:
            scope = (item.body_open + 1, item.body_close)
    if kind == "region":
        return src, region[0], region[1], item, "region"
    return src, item.tstart, item.tend, item, "item"


_SRC_CACHE = {}


def _load(repo, fpath):
    import os
    p = os.path.join(repo, fpath)
    key = (p, os.path.getmtime(p) if os.path.exists(p) else None)
    if key not in _SRC_CACHE:
        if not os.path.exists(p):
            raise ExtractError("anchor lost: file %s missing" % p)
        _SRC_CACHE[key] = Source(p)
    return _SRC_CACHE[key]


# --------------------------------------------------------------------------- weaving

def weave_fn(src, item, rules, rw, spec=None, result_name=None, loops=None, inserts=None, body_only=False,
             sig_override=None):
    """Produce the text of fn `item` with rewrites and contract text woven in.

    spec      : text placed between signature and body (requires/ensures/decreases ...)
    result_name: R2 -- `-> T` becomes `-> (name: T)`
    loops     : {k: text}  text placed between the header of the k-th loop (source order,
                1-based) and its `{`
    inserts   : list of (position, text); position in
                body_start | body_end | loop:k:before | loop:k:after | loop:k:body_start |
                loop:k:body_end | stmt:n:before | stmt:n:after | loop:k:stmt:n:before|after
    """
    toks = src.toks
    if item.kind != "fn" or item.body_open is None:
        raise ExtractError("not a fn with body: %r" % item)
    loops = loops or {}
    inserts = inserts or []
    # token-index -> list of texts to emit BEFORE that token
    before = {}

    def add(idx, text):
        before.setdefault(idx, []).append(text)

    bo, bc = item.body_open, item.body_close
    lps = find_loops(toks, bo + 1, bc)
    for k, text in loops.items():
        if k < 1 or k > len(lps):
            raise ExtractError("anchor lost: loop %d of fn %s (has %d loops)" % (k, item.name, len(lps)))
        add(lps[k - 1][1], "\n" + text + "\n")
        _count(rw, "R3.loop_contract")
    for pos, text in inserts:
        p = pos.split(":")
        if pos == "body_start":
            add(bo + 1, "\n" + text + "\n")
        elif pos == "body_end":
            add(bc, "\n" + text + "\n")
        elif p[0] == "loop" and len(p) == 3:
            k = int(p[1])
            if k < 1 or k > len(lps):
                raise ExtractError("anchor lost: loop %d of fn %s" % (k, item.name))
            kw, lo_, lc_ = lps[k - 1]
            if p[2] == "before":
                # before the loop keyword (and a label, if any)
                idx = kw
                q = kw - 1
                while q > bo and toks[q].kind in TRIVIA:
                    q -= 1
                if toks[q].text == ":" and toks[q - 1].kind == "lifetime":
                    idx = q - 1
                add(idx, "\n" + text + "\n")
            elif p[2] == "after":
                add(lc_ + 1, "\n" + text + "\n")
            elif p[2] == "body_start":
                add(lo_ + 1, "\n" + text + "\n")
            elif p[2] == "body_end":
                add(lc_, "\n" + text + "\n")
            elif p[2] == "iter":
                # R8: name the ghost iterator of a `for` loop: `for x in EXPR` -> `for x in <name>: EXPR` (Verus syntax;
                # ghost only, the executable iteration is unchanged).  text = the name.
                if toks[kw].text != "for":
                    raise ExtractError("loop %d of fn %s is not a for loop" % (k, item.name))
                q = kw + 1
                found = None
                while q < lo_:
                    tq = toks[q]
                    if tq.kind == "punct" and tq.text in ("(", "["):
                        q = match_close(toks, q) + 1
                        continue
                    if tq.kind == "ident" and tq.text == "in":
                        found = q + 1
                        break
                    q += 1
                if found is None:
                    raise ExtractError("no `in` in for header of loop %d of fn %s" % (k, item.name))
                add(found, " " + text.strip() + ": ")
                _count(rw, "R8.ghost_iterator_named")
            else:
                raise ExtractError("bad position %s" % pos)
        elif p[0] == "stmt" and len(p) == 3:
            st = top_level_statements(toks, bo, bc)
            n = int(p[1])
            if n < 1 or n > len(st):
                raise ExtractError("anchor lost: stmt %d of fn %s (has %d)" % (n, item.name, len(st)))
            add(st[n - 1][0] if p[2] == "before" else st[n - 1][1], "\n" + text + "\n")
        elif p[0] == "loop" and len(p) == 5 and p[2] == "stmt":
            k = int(p[1])
            if k < 1 or k > len(lps):
                raise ExtractError("anchor lost: loop %d of fn %s" % (k, item.name))
            kw, lo_, lc_ = lps[k - 1]
            st = top_level_statements(toks, lo_, lc_)
            n = int(p[3])
            if n < 1 or n > len(st):
                raise ExtractError("anchor lost: loop %d stmt %d of fn %s" % (k, n, item.name))
            add(st[n - 1][0] if p[4] == "before" else st[n - 1][1], "\n" + text + "\n")
        elif p[0] == "match" and len(p) >= 5 and p[2] == "arm":
            # match:M:arm:K:start|end  |  match:M:arm:K:stmt:N:before|after   (M-th `match` keyword of the fn body in
            # source order, K-th arm of it; the arm body must be a block)
            ms = _find_matches(toks, bo + 1, bc)
            M, K = int(p[1]), int(p[3])
            if M < 1 or M > len(ms):
                raise ExtractError("anchor lost: match %d of fn %s (has %d)" % (M, item.name, len(ms)))
            o_, c_ = _match_body(toks, ms[M - 1], bc)
            arms = match_arms(toks, o_, c_)
            if K < 1 or K > len(arms):
                raise ExtractError("anchor lost: match %d arm %d of fn %s (has %d arms)" % (M, K, item.name, len(arms)))
            pl, ar, bl, bh = arms[K - 1]
            if toks[bl].text != "{":
                raise ExtractError("match %d arm %d of fn %s is not a block" % (M, K, item.name))
            ac = match_close(toks, bl)
            if p[4] == "start":
                add(bl + 1, "\n" + text + "\n")
            elif p[4] == "end":
                add(ac, "\n" + text + "\n")
            elif p[4] == "stmt" and len(p) == 7:
                st = top_level_statements(toks, bl, ac)
                n = int(p[5])
                if n < 1 or n > len(st):
                    raise ExtractError("anchor lost: match %d arm %d stmt %d of fn %s" % (M, K, n, item.name))
                add(st[n - 1][0] if p[6] == "before" else st[n - 1][1], "\n" + text + "\n")
            else:
                raise ExtractError("bad position %s" % pos)
        else:
            raise ExtractError("bad position %s" % pos)
        _count(rw, "R3.proof_insert")

    # signature part: [tstart, bo)
    sig_lo = item.tstart
    if sig_override is not None:
        sig = sig_override
    else:
        sig = _weave_sig(toks, sig_lo, bo, item, rules, rw, result_name)
    if spec:
        sig = sig.rstrip() + "\n" + spec.rstrip() + "\n"
        _count(rw, "R3.fn_contract")
    # body with inserts
    pieces = []
    cur = bo
    for idx in sorted(before):
        if idx < bo or idx > bc + 1:
            raise ExtractError("insert outside body")
        pieces.append(apply_token_rewrites(toks, cur, idx, rules, rw))
        pieces.extend(before[idx])
        cur = idx
    pieces.append(apply_token_rewrites(toks, cur, bc + 1, rules, rw))
    body = "".join(pieces)
    if body_only:
        return body
    return sig + body


def _weave_sig(toks, lo, bo, item, rules, rw, result_name):
    """signature text with R1 applied and (R2) the result named."""
    if not result_name:
        return apply_token_rewrites(toks, lo, bo, rules, rw)
    # locate `->` at depth 0 after the parameter list
    k = item.kwtok
    # parameter list: first `(` after fn name (skip generics)
    j = k
    while j < bo and toks[j].text != "(":
        j += 1
    pe = match_close(toks, j)
    arrow = None
    j = pe + 1
    while j < bo:
        if toks[j].kind == "punct" and toks[j].text == "->":
            arrow = j
            break
        if toks[j].kind == "ident" and toks[j].text == "where":
            break
        j += 1
    if arrow is None:
        return apply_token_rewrites(toks, lo, bo, rules, rw)
    # return type extends to `where` or body
    e = arrow + 1
    depth = 0
    while e < bo:
        t = toks[e]
        if t.kind == "punct" and t.text in _OPEN:
            e = match_close(toks, e) + 1
            continue
        if t.kind == "ident" and t.text == "where":
            break
        e += 1
    ty = "".join(x.text for x in toks[arrow + 1:e]).strip()
    _count(rw, "R2.named_result")
    return (apply_token_rewrites(toks, lo, arrow, rules, rw) + "-> (" + result_name + ": " + ty + ") "
            + apply_token_rewrites(toks, e, bo, rules, rw))


def extract(repo, address, rules=("R1",), **weave):
    """Extract an item or region.  For fn items, weave arguments are honoured."""
    rules = set(rules)
    src, lo, hi, item, kind = resolve(repo, address)
    rw = {}
    raw = src.text[src.toks[lo].start:src.toks[hi - 1].end]
    if kind == "item" and item.kind == "fn" and item.body_open is not None:
        text = weave_fn(src, item, rules, rw, **weave)
    else:
        if weave and any(v for v in weave.values()):
            raise ExtractError("weaving requested on non-fn %s" % address)
        text = apply_token_rewrites(src.toks, lo, hi, rules, rw)
    return Extracted(address, src.path, src.line_of(lo), raw, text, rw)


if __name__ == "__main__":
    # rsx.py <repo> '<address>' [R1,R4,...]  -> prints extracted text (debug aid)
    repo, addr = sys.argv[1], sys.argv[2]
    rules = sys.argv[3].split(",") if len(sys.argv) > 3 else ["R1"]
    ex = extract(repo, addr, rules)
    sys.stdout.write(ex.text + "\n")
    sys.stderr.write("// %s:%d sha256=%s rewrites=%s\n" % (ex.path, ex.line, ex.sha256[:12], ex.rewrites))
