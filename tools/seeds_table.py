#!/usr/bin/env python3
"""Builds the DESIGN.md seeds section (9.6) from seeded/*/meta.json + the miss reasons below."""
import glob, json, os, re
ROOT = os.path.dirname(os.path.dirname(os.path.abspath(__file__)))
WHY_MISSED = {
 "C08-3": "`retain_n_versions` is an `async fn` computing the cut-off from `dataset.versions().await`; no contracted function is touched (the policy it builds is still applied correctly by `should_clean`, which is under contract)",
 "C15-r2-2": "`decompose_sequence`: iterator/closure chains; Kani attempt infeasible (9.7)",
 "C34-3": "same change as C15-r2-2 (`decompose_sequence`), infeasible (9.7)",
 "C34-2": "`rechunk_sequences`: peekable iterator + closures + `Result`; outside Verus' subset, same `Vec`/`collect` shape that was infeasible for `decompose_sequence`; not attempted",
 "C16-2": "`FilteredReadExec::read_fragment`: async stream code (DataFusion), outside both verifiers -- C16 is claimed for the coercion clause only",
 "C16-3": "`TakeOperation::try_from_expr` pattern-matches real DataFusion `Expr` trees with column-name string comparisons: not in Verus' subset, symbolic `Box` trees exhaust CBMC (9.7); C16 is claimed for the coercion clause only",
 "C19-r2-2": "`BitmapIndex::update` (async, Arrow arrays, index store I/O): the index structures themselves are listed as undecided for C19",
 "C20-1": "zone training (`ZoneMapIndexBuilder::update_stats`, Arrow arrays): listed as undecided for C20/C29; the decision function is correct given the wrong statistics",
 "C20-3": "n-gram spill merging (`merge_spill_streams`, async streams): listed as undecided for C20",
 "C26-2": "LZ4 buffer decompressor (`block.rs`, `LanceBuffer`, lz4 crate): C26 is claimed for the byte-pack codec only",
 "C26-3": "dictionary null normalisation (Arrow arrays): C26 is claimed for the byte-pack codec only",
 "C28-1": "FSST symbol-table construction (raw pointers, randomised trainer): the FSST half of C28 is listed as undecided",
 "C28-2": "FSST `compress_bulk` (raw pointers, 32 KiB inputs): the FSST half of C28 is listed as undecided",
 "C30-r3-1": "un-coalescing loop in the `async move` block of `FileScheduler::submit_request` (`Bytes` slicing, indices into `bytes_vec`): listed as undecided for C30",
 "C05-1": "`Manifest::max_field_id`: nested `flat_map` over fragments / data files / field ids; Kani attempt with array-backed shims ran out of memory at 28 GB for 2 x 2 x 2 (9.7)",
 "C05-2": "`Transaction::assign_row_ids`: CBMC out of memory in the design phase (section 4, C07/C18); C05 is claimed for the fragment-id high-water mark only",
 "C05-3": "`merge_fragments_valid` (lance/src/dataset/transaction.rs, iterator chains over `Fragment`s): not under contract; C05 is claimed for the fragment-id high-water mark only",
 "C17-1": "`RowDatasetVersionSequence::mask` (`iter_mut`, `retain` closure over a heap `Vec`): outside Verus' subset; Kani attempt out of memory at 40 GB (9.7); listed as undecided for C17 (lookup half only)",
 "C17-2": "`Transaction::build_manifest` (700-line match, async callers): version ASSIGNMENT is listed as undecided for C17",
 "C17-3": "`get_updated_rows` builds a SQL filter string for an async scan (delta.rs): listed as undecided for C17",
 "C29-1": "zone training (`update_stats`, nan_count accumulation over Arrow arrays): listed as undecided for C29",
 "C29-2": "legacy writer statistics (`get_string_statistics`, Arrow string arrays): listed as undecided for C29",
 "C29-3": "legacy writer statistics (`get_binary_statistics`): listed as undecided for C29",
}
rows = []
for mp in sorted(glob.glob(os.path.join(ROOT, "seeded", "*", "meta.json"))):
    d = os.path.dirname(mp)
    sid = os.path.basename(d)
    m = json.load(open(mp))
    notes = os.path.join(d, "notes.md")
    title = ""
    if os.path.exists(notes):
        first = open(notes).readline().strip().lstrip("# ").strip()
        title = re.sub(r"^(C\d+\s*/?\s*(change|EXTRA)?\s*\d*\s*[—-]+\s*|Patch \d+ - |Seed \S+ — |Change \d+ — |C\d+ change \d+ — )", "", first)
    conf = (m.get("confirmed_by_me") or {}).get("confirmed")
    if m.get("valid_seed") is False:
        conf = "not a valid seed (breaks an existing test)"
    if m.get("detected"):
        obl = ", ".join("`%s`" % o for o in m.get("failed_obligations", [])[:2])
        res = "**caught**: %s%s" % (obl, " (input executed / replayed)" if m.get("witness_found") else " (no-failing-input-found)")
    elif m.get("check_exit") == 2:
        res = "exit 2 (UNDECIDED): " + "; ".join(m.get("verdict_lines", [])[:1])[:160]
    else:
        res = "missed -- " + WHY_MISSED.get(sid, "outside the decided ingredient")
    rows.append("| %s | %s | %s | %s | %s |" % (sid, m.get("property", ""), title[:150], {True: "yes", False: "NO", None: "round 1"}.get(conf, conf), res))
n_valid = sum(1 for r in rows if "not a valid seed" not in r)
n_caught = sum(1 for r in rows if "**caught**" in r and "not a valid seed" not in r)
out = []
out.append("### 9.6 Seeded breaking changes and which checks catch them\n")
out.append("Source of the changes: fresh sub-agents, one per property, each given only the property record and its own scratch\n"
           "worktree of `/repo` under `/tmp/wt` (nothing from `/verif`), asked for up to three changes that compile, pass the\n"
           "existing tests of the touched crates and need something specific to manifest, each with a demonstration.  Every change\n"
           "kept here was confirmed by me in the scratch worktree with `tools/confirm2.py` (existing tests pass with the patch, the\n"
           "demonstration fails with it and passes without; `meta.json.confirmed_by_me`), then run against the property's registered\n"
           "quick check with `tools/seed_meta.py` (`git -C /repo apply`, check, `git -C /repo checkout -- .`).  Rows marked\n"
           "\"round 1\" come from the previous round (confirmed then; `notes.md` in each directory).  The worktrees and their\n"
           "build output were removed.\n")
out.append("**%d of %d valid seeded changes are caught** (exit 1 with the named obligation); the others are misses in code that the\n"
           "claim texts already list as undecided -- each with the reason.  Checks were strengthened where a miss was within\n"
           "reach: `treemap` (after C21-2), `bloom_decision` (after C20-2), `indexed_expr` + `index_planner` (after C19-r2-1; this\n"
           "is how defect F5 was found), `index_coverage` (after C19-r2-3), `take_addrs` (after C15-r2-3), the `on_bytes_consumed`\n"
           "slice with the loop-free fallback (after C30-2), the richer `flags_apply` shim (after C37-2 first came out as exit 2\n"
           "because the shim lacked `num_deleted_rows`), the dirty output buffer and `u32_w0` in the quick tier of `bitpack` (after\n"
           "C28-3), the new `chunk_split` and `sched_ranges` units (after C30-3 / C30-1: the splitting loop of\n"
           "`LanceEncodingsIo::submit_request` and the coalescing / splitting loop bodies of `FileScheduler::submit_request`), `rowids_real` (counterexamples for `encoded_array`, after C34-1 had none).  Attempts that failed: `decompose_sequence`\n"
           "(C34-3 / C15-r2-2) and `max_field_id` (C05-1), see 9.7.  `C19-coerce-*` are my own breaking edits from round 1, not\n"
           "independent seeds; `C21-4` breaks an existing test and is not counted.  Round 3 (session 3, C30 only, two changes): `C30-r3-2`\n"
           "first ended as exit 2 (the change uses a new file-level constant and `u64::next_multiple_of`); after `chunk_split` learnt to pull\n"
           "in every constant of io.rs (`//@consts ... :: optional`) and got an assumed contract for `next_multiple_of` it is caught.\n" % (n_caught, n_valid))
out.append("| seed | property | change | confirmed | result of `./check <property>` with the change applied |")
out.append("|---|---|---|---|---|")
out.extend(rows)
print("\n".join(out))
