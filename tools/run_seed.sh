#!/bin/bash
# run_seed.sh <seed-dir> <property> : apply a seeded change to /repo, run the property's quick check, undo.
d=$1; p=$2
cd /repo && git diff --quiet || { echo "/repo not clean"; exit 3; }
git -C /repo apply "$d/patch.diff" || exit 3
cd /verif && ./check $p --no-evidence > "$d/check_output.txt" 2>&1; rc=$?
git -C /repo checkout -- .
echo "$d $p exit=$rc: $(grep -m3 -E 'VIOLATION|UNDECIDED|OK|failed obligation' "$d/check_output.txt" | tr '\n' ' ' | cut -c1-300)"
