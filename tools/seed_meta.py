#!/usr/bin/env python3
"""seed_meta.py <seed-dir> <property> [--needs "..."] [--origin "..."] [--demo "..."]
Applies the seed's patch to /repo, runs the property's quick check (no evidence), undoes the patch, and writes
<seed-dir>/meta.json + check_output.txt.  /repo is left clean."""
import argparse, json, os, re, subprocess, sys, time
ap = argparse.ArgumentParser()
ap.add_argument("dir"); ap.add_argument("prop")
ap.add_argument("--needs", default=None); ap.add_argument("--origin", default=None); ap.add_argument("--demo", default=None)
ap.add_argument("--confirmed", default=None)
ap.add_argument("--repo", default="/repo", help="tree to apply the patch to (a clean scratch worktree at the same commit may be used for units that extract text; units that #[path]-include real files always read /repo)")
a = ap.parse_args()
d = os.path.abspath(a.dir)
meta_p = os.path.join(d, "meta.json")
meta = json.load(open(meta_p)) if os.path.exists(meta_p) else {}
REPO = a.repo
if subprocess.run(["git", "-C", REPO, "diff", "--quiet"]).returncode != 0:
    sys.exit(REPO + " not clean")
r = subprocess.run(["git", "-C", REPO, "apply", os.path.join(d, "patch.diff")], capture_output=True, text=True)
if r.returncode != 0:
    sys.exit("patch does not apply: " + r.stderr)
t0 = time.time()
try:
    p = subprocess.run(["./check", a.prop, "--no-evidence"], cwd="/verif", capture_output=True, text=True, env=dict(os.environ, VERIF_REPO=REPO))
finally:
    subprocess.run(["git", "-C", REPO, "checkout", "--", "."])
out = p.stdout + p.stderr
open(os.path.join(d, "check_output.txt"), "w").write(out)
lines = [l for l in out.split("\n") if re.search(r"VIOLATION|UNDECIDED|^OK |failed obligation|KNOWN-FINDING", l)]
files = re.findall(r"^\+\+\+ b/(\S+)", open(os.path.join(d, "patch.diff")).read(), re.M)
meta.update({
    "property": a.prop,
    "files_changed": files,
    "check_cmd": "git -C %s apply %s/patch.diff && VERIF_REPO=%s ./check %s --no-evidence; git -C %s checkout -- ." % (REPO, d, REPO, a.prop, REPO),
    "tree_used": REPO + (" (scratch worktree of /repo at the same commit, used because /repo was busy with another seed run)" if REPO != "/repo" else ""),
    "check_exit": p.returncode,
    "check_wall_s": round(time.time() - t0, 1),
    "detected": p.returncode == 1,
    "verdict_lines": [l[:300] for l in lines][:12],
    "failed_obligations": re.findall(r"failed obligation: (\S+)", out),
    "witness_found": bool(re.search(r"VIOLATION[^\n]*replay=\S+\s*$", out, re.M)),
})
for k in ("needs", "origin", "demo", "confirmed"):
    v = getattr(a, k)
    if v is not None:
        meta[{"needs": "needs_to_manifest", "origin": "origin", "demo": "demonstration", "confirmed": "confirmed_by_me"}[k]] = v
json.dump(meta, open(meta_p, "w"), indent=1)
print(d, a.prop, "exit=%d" % p.returncode, "; ".join(lines)[:300])
