"""Counterexample search / replay against the REAL crates (DESIGN.md 3.6) and the
assumption audit (DESIGN.md 3.2).  The native harness lives in /verif/replay and has
path dependencies on /repo, so it is rebuilt from the current working tree."""
import json
import os
import shutil
import subprocess
import time

ROOT = os.path.dirname(os.path.dirname(os.path.abspath(__file__)))
TARGET = os.path.join(ROOT, "build", "replay-target")
_built = {"ok": None, "log": ""}


def build_replay(repo):
    """(re)build the native harness against the working tree; returns path of the binary or None."""
    if _built["ok"] is not None:
        return _built["ok"]
    rdir = os.path.join(ROOT, "replay")
    try:
        shutil.copyfile(os.path.join(repo, "Cargo.lock"), os.path.join(rdir, "Cargo.lock"))
    except OSError:
        pass
    env = dict(os.environ, CARGO_NET_OFFLINE="true", CARGO_TARGET_DIR=TARGET)
    p = subprocess.run(["cargo", "build", "--offline", "--quiet"], cwd=rdir, env=env, stdout=subprocess.PIPE,
                       stderr=subprocess.STDOUT, text=True)
    _built["log"] = p.stdout[-3000:]
    binp = os.path.join(TARGET, "debug", "verif-replay")
    _built["ok"] = binp if p.returncode == 0 and os.path.exists(binp) else False
    return _built["ok"]


def run_key(repo, key, seed, iters, timeout=600):
    binp = build_replay(repo)
    if not binp:
        return {"found": False, "error": "replay harness did not build against the working tree",
                "build_log": _built["log"]}
    t0 = time.time()
    try:
        p = subprocess.run([binp, key, "--seed", str(seed), "--iters", str(iters)], stdout=subprocess.PIPE,
                           stderr=subprocess.PIPE, text=True, timeout=timeout)
    except subprocess.TimeoutExpired:
        return {"found": False, "error": "timeout"}
    line = p.stdout.strip().split("\n")[-1] if p.stdout.strip() else ""
    try:
        d = json.loads(line)
    except Exception:
        d = {"found": False, "error": "unparsable output", "stdout": p.stdout[-500:], "stderr": p.stderr[-500:]}
    d["wall_s"] = round(time.time() - t0, 3)
    d["cmd"] = "%s %s --seed %s --iters %s" % (binp, key, seed, iters)
    return d


_native = {}


def run_native(repo, spec, key, seed, iters, input_hex=None, timeout=900):
    """spec = {"crate": dir under /verif, "bin": binary name}: a native crate with path dependencies on /repo that is
    too heavy to build in setup (DataFusion) -- built on first use, i.e. only when an obligation has failed."""
    crate, binname = spec["crate"], spec["bin"]
    target = os.path.join(ROOT, "build", crate + "-target")
    if crate not in _native:
        rdir = os.path.join(ROOT, crate)
        try:
            shutil.copyfile(os.path.join(repo, "Cargo.lock"), os.path.join(rdir, "Cargo.lock"))
        except OSError:
            pass
        env = dict(os.environ, CARGO_NET_OFFLINE="true", CARGO_TARGET_DIR=target)
        env.pop("RUSTFLAGS", None)
        p = subprocess.run(["cargo", "build", "--offline", "--quiet"], cwd=rdir, env=env, stdout=subprocess.PIPE,
                           stderr=subprocess.STDOUT, text=True)
        binp = os.path.join(target, "debug", binname)
        _native[crate] = binp if p.returncode == 0 and os.path.exists(binp) else (False, p.stdout[-2000:])
    binp = _native[crate]
    if not isinstance(binp, str):
        return {"found": False, "error": "native replay crate %s did not build against the working tree" % crate,
                "build_log": binp[1]}
    cmd = [binp, key, "--seed", str(seed), "--iters", str(iters)] + (["--input", input_hex] if input_hex else [])
    t0 = time.time()
    try:
        p = subprocess.run(cmd, stdout=subprocess.PIPE, stderr=subprocess.PIPE, text=True, timeout=timeout)
    except subprocess.TimeoutExpired:
        return {"found": False, "error": "timeout"}
    line = p.stdout.strip().split("\n")[-1] if p.stdout.strip() else ""
    try:
        d = json.loads(line)
    except Exception:
        d = {"found": False, "error": "unparsable output", "stdout": p.stdout[-500:], "stderr": p.stderr[-500:]}
    d["wall_s"] = round(time.time() - t0, 3)
    d["cmd"] = " ".join(cmd)
    d["native"] = spec
    return d


def find_witness(r, o, repo, tier, seed):
    """r: unit result, o: failing obligation.  Returns a witness dict or None."""
    if o.get("witness") is not None:
        return o["witness"]            # e.g. Kani concrete playback values, or an audit's own input
    key = (r.get("witness_keys") or {}).get(o["id"])
    if not key:
        return None
    d = run_key(repo, key, seed, 100000 if tier != "thorough" else 10000000)
    if d.get("found"):
        d["replayed_against"] = "the real crate in /repo (native harness /verif/replay, path dependency)"
        return d
    return None


def run_audits(u, repo, seed):
    """execute the assumed contracts of /repo callees on boundary + seeded inputs.
    -> list of dicts {key, found, ...}"""
    out = []
    for key in u.get("audits", []):
        out.append(dict(run_key(repo, key, seed, 20000), key=key))
    return out


def replay_file(path, repo):
    rep = json.load(open(path))
    w = rep.get("witness")
    print("replay of %s (obligation %s)" % (path, rep.get("obligation")))
    if w and w.get("kind") == "kani-concrete-playback-executed-natively":
        # re-extract from the CURRENT /repo, put Kani's concrete test back next to the harness, execute natively
        import kdriver
        import rsx
        upath = os.path.join(ROOT, "units", rep["unit"], "unit.json")
        u = json.load(open(upath))
        u["name"] = rep["unit"]
        u["dir"] = os.path.dirname(upath)
        try:
            dst, _, _ = kdriver.prepare(u, repo)
        except (rsx.ExtractError, OSError) as e:
            print("cannot re-extract: %s" % e)
            return 2
        lib = os.path.join(dst, "src", "lib.rs")
        text = open(lib).read().rstrip()
        assert text.endswith("}")
        open(lib, "w").write(text[:-1] + "\n" + w["unit_test"] + "\n}\n")
        st, rc, out, wall = kdriver._run(["cargo", "kani", "playback", "-Z", "concrete-playback", "--", w["test_name"]], dst, 1800, None)
        print(out[-1500:])
        if "test result: FAILED" in out:
            print("REPRODUCED on the current /repo working tree")
            return 1
        if "test result: ok" not in out:
            print("replay could not be executed (harness does not compile against the working tree?)")
            return 2
        print("not reproduced on the current /repo working tree")
        return 0
    if not w or not w.get("key"):
        print("no concrete input recorded (no-failing-input-found); verifier output follows")
        print(rep.get("verifier_output", ""))
        return 2
    if w.get("native"):
        d = run_native(repo, w["native"], w["key"], 0, 100000, w.get("any_values_hex"))
    else:
        d = run_key(repo, w["key"], 0, 100000)
    print(json.dumps(d))
    if d.get("found"):
        print("REPRODUCED on the current /repo working tree")
        return 1
    print("not reproduced on the current /repo working tree")
    return 0
