#!/usr/bin/env python3
"""confirm2.py <config.json>   -- confirm seeded changes in SCRATCH worktrees (never /repo).
config: list of {seed, wt, mode: inside|append|newfile, file, pkg, demo_filter, demo_file (default demo.rs), existing: [cargo args] }
For each: A) patch applied + demo placed: existing tests (demo skipped) pass, demo FAILS; B) patch reverted: demo PASSES.
Writes <seed>/confirm.json and merges a `confirmed_by_me` entry into <seed>/meta.json."""
import json, os, subprocess, sys, re
cfgs = json.load(open(sys.argv[1]))
def sh(cmd, wt):
    env = dict(os.environ, CARGO_TARGET_DIR=os.path.join(wt, "target"), CARGO_NET_OFFLINE="true")
    p = subprocess.run(cmd, shell=True, cwd=wt, env=env, stdout=subprocess.PIPE, stderr=subprocess.STDOUT, text=True)
    return p.returncode, p.stdout
def place(c):
    wt = c["wt"]; demo = open(os.path.join(c["seed"], c.get("demo_file", "demo.rs"))).read()
    p = os.path.join(wt, c["file"])
    if c["mode"] == "newfile":
        os.makedirs(os.path.dirname(p), exist_ok=True); open(p, "w").write(demo); return
    s = open(p).read()
    if c["mode"] == "inside":
        i = s.rstrip().rfind("}"); s = s[:i] + "\n" + demo + "\n}\n"
    else:
        s = s + "\n" + demo + "\n"
    open(p, "w").write(s)
def unplace(c):
    sh("git checkout -- .", c["wt"])
    if c["mode"] == "newfile":
        try: os.remove(os.path.join(c["wt"], c["file"]))
        except OSError: pass
def results(o):
    return [l.strip() for l in o.split("\n") if re.search(r"test result:|FAILED|panicked at|^error", l)][:10]
for c in cfgs:
    wt = c["wt"]; out = {"seed": c["seed"]}
    unplace(c)
    rc, o = sh("git apply %s" % os.path.join(c["seed"], "patch.diff"), wt)
    if rc != 0:
        out["error"] = "patch does not apply: " + o[-300:]; print(json.dumps(out)); continue
    place(c)
    demo_cmd = "cargo test --offline -p %s %s %s 2>&1 | tail -60" % (c["pkg"], c.get("target", "--lib"), c["demo_filter"])
    ex_cmd = "cargo test --offline -p %s %s 2>&1 | tail -40" % (c["pkg"], c.get("existing", "--lib -- --skip " + c["demo_filter"]))
    rc, o = sh(ex_cmd, wt); out["A_existing_with_patch_cmd"] = ex_cmd; out["A_existing_with_patch"] = results(o)
    rc, o = sh(demo_cmd, wt); out["A_demo_with_patch_cmd"] = demo_cmd; out["A_demo_with_patch"] = results(o)
    unplace(c); place(c)
    rc, o = sh(demo_cmd, wt); out["B_demo_without_patch"] = results(o)
    unplace(c)
    ex_ok = any("test result: ok" in l for l in out["A_existing_with_patch"]) and not any("FAILED" in l or l.startswith("error") for l in out["A_existing_with_patch"])
    demo_fails = any("FAILED" in l for l in out["A_demo_with_patch"])
    demo_passes = any("test result: ok" in l for l in out["B_demo_without_patch"]) and not any("FAILED" in l for l in out["B_demo_without_patch"])
    out["confirmed"] = bool(ex_ok and demo_fails and demo_passes)
    json.dump(out, open(os.path.join(c["seed"], "confirm.json"), "w"), indent=1)
    mp = os.path.join(c["seed"], "meta.json")
    meta = json.load(open(mp)) if os.path.exists(mp) else {}
    meta["confirmed_by_me"] = {"confirmed": out["confirmed"], "existing_tests_with_patch": out["A_existing_with_patch"][-2:],
                               "demo_with_patch": out["A_demo_with_patch"][-2:], "demo_without_patch": out["B_demo_without_patch"][-2:],
                               "commands": [ex_cmd, demo_cmd], "where": "scratch worktree %s (removed afterwards)" % wt,
                               "demo_placement": "%s %s" % (c["mode"], c["file"])}
    json.dump(meta, open(mp, "w"), indent=1)
    print(c["seed"], "confirmed=%s" % out["confirmed"], out["A_existing_with_patch"][-1:], out["A_demo_with_patch"][-1:], out["B_demo_without_patch"][-1:], flush=True)
