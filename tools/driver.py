#!/usr/bin/env python3
"""./check <Cxx> [--tier quick|thorough] [--replay file] [--relock] [--unit u]

Runs every unit tagged with the property against /repo's current working tree and
decides:  exit 0 OK / KNOWN-FINDING, exit 1 VIOLATION, exit 2 UNDECIDED.
See DESIGN.md section 3.
"""
import argparse
import json
import os
import shutil
import sys
import time

HERE = os.path.dirname(os.path.abspath(__file__))
ROOT = os.path.dirname(HERE)
sys.path.insert(0, HERE)
import rsx  # noqa: E402
import vunit  # noqa: E402
import vdriver  # noqa: E402
import kdriver  # noqa: E402
import witness  # noqa: E402

REPO = os.environ.get("VERIF_REPO", "/repo")


def load_units():
    units = {}
    udir = os.path.join(ROOT, "units")
    for name in sorted(os.listdir(udir)):
        p = os.path.join(udir, name, "unit.json")
        if os.path.exists(p):
            u = json.load(open(p))
            u["name"] = name
            u["dir"] = os.path.join(udir, name)
            units[name] = u
    return units


def load_known():
    p = os.path.join(ROOT, "known_findings.json")
    if not os.path.exists(p):
        return []
    return json.load(open(p)).get("findings", [])


def main():
    ap = argparse.ArgumentParser()
    ap.add_argument("prop")
    ap.add_argument("--tier", default=os.environ.get("VERIF_TIER", "quick"))
    ap.add_argument("--replay")
    ap.add_argument("--relock", action="store_true", help="rewrite obligations.lock / assumptions.lock of the units run "
                    "(human action after reviewing a green run on the pinned tree; never used by registered checks)")
    ap.add_argument("--unit", action="append")
    ap.add_argument("--no-evidence", action="store_true")
    args = ap.parse_args()
    seed = int(os.environ.get("VERIF_SEED", "0") or 0)
    t0 = time.time()

    if args.replay:
        sys.exit(witness.replay_file(args.replay, REPO))

    units = load_units()
    mine = [u for u in units.values() if args.prop in u.get("properties", {})]
    if args.unit:
        mine = [u for u in mine if u["name"] in args.unit]
    if not mine:
        print("UNDECIDED property=%s reason=no unit serves this property" % args.prop)
        sys.exit(2)

    results = []
    for u in mine:
        sel = u["properties"][args.prop]
        if u["backend"] == "verus":
            r = vdriver.run_unit(u, REPO, args.tier, seed, relock=args.relock)
        elif u["backend"] == "kani":
            r = kdriver.run_unit(u, REPO, args.tier, seed, relock=args.relock, prop=args.prop)
        else:
            raise SystemExit("unknown backend")
        r["selector"] = sel
        r["witness_keys"] = u.get("witness", {})
        # assumption audit: run the assumed contracts of /repo callees against the real implementation
        for a in witness.run_audits(u, REPO, seed):
            if a.get("found"):
                r["obligations"].append({"id": "audit:" + a["key"], "status": "failed", "bounded": True,
                                         "bound": "executed on boundary + seeded inputs (assumption audit, not a proof)",
                                         "detail": "assumed contract refuted by execution on the real code",
                                         "witness": dict(a, kind="assumption-refuted-by-execution")})
            elif a.get("error"):
                r.setdefault("undecided", []).append("assumption audit %s did not run: %s" % (a["key"], a["error"]))
            else:
                r.setdefault("audits", []).append({"key": a["key"], "tried": a.get("tried"), "refuted": False})
        # second line when the verifier cannot decide (lost anchor, rewritten body, unsupported construct, rlimit):
        # run the executable mirrors of this unit's postconditions against the real code.  A concrete failing
        # input is a genuine violation (reported as such, labelled as found by execution); finding none proves
        # nothing and leaves the verdict UNDECIDED.
        und = bool(r.get("undecided")) or any(o["status"] == "undecided" for o in r["obligations"])
        if und and u.get("witness"):
            tried = set()
            for oid, key in sorted(u["witness"].items()):
                if key in tried:
                    continue
                tried.add(key)
                d = witness.run_key(REPO, key, seed, 100000)
                if d.get("found"):
                    d["replayed_against"] = "the real crate in /repo (native harness /verif/replay, path dependency)"
                    d["kind"] = "postcondition-refuted-by-execution"
                    existing = next((o for o in r["obligations"] if o["id"] == oid), None)
                    detail = ("the verifier could not decide this obligation on the current tree (%s); the executable mirror of "
                              "its postcondition FAILS on the real code" % "; ".join(r.get("undecided", []))[:600])
                    if existing is not None:
                        existing.update({"status": "failed", "witness": d, "detail": detail + "\n" + existing.get("detail", "")})
                    else:
                        r["obligations"].append({"id": oid, "status": "failed", "witness": d, "detail": detail,
                                                 "refuted_by_execution": True})
        results.append(r)

    known = load_known()
    violations = []      # (unit, obligation dict)
    known_hits = []
    undecided = []
    n_obl = n_dis = 0
    bounded = []
    for r in results:
        for reason in r.get("undecided", []):
            undecided.append("%s: %s" % (r["unit"], reason))
        for o in r["obligations"]:
            if r["selector"] != "*" and not any(o["id"] == s or o["id"].startswith(s) for s in r["selector"]):
                continue
            o["_counted"] = True
            if o.get("bounded"):
                bounded.append(o)
                if o["status"] == "failed":
                    violations.append((r, o))
                elif o["status"] == "undecided":
                    undecided.append("%s: %s: %s" % (r["unit"], o["id"], o.get("detail", "")))
                continue
            n_obl += 1
            if o["status"] == "discharged":
                n_dis += 1
            elif o["status"] == "failed":
                violations.append((r, o))
            else:
                undecided.append("%s: %s: %s" % (r["unit"], o["id"], o.get("detail", "")))

    # known findings: a failing obligation listed as known (status "known") and whose recorded witness
    # still fails on the real code is reported as KNOWN-FINDING, not as VIOLATION
    real_violations = []
    for r, o in violations:
        kf = next((k for k in known if k.get("status") == "known" and k["property"] == args.prop
                   and k["obligation"] == "%s/%s" % (r["unit"], o["id"])), None)
        if kf is not None:
            known_hits.append((kf, r, o))
        else:
            real_violations.append((r, o))

    os.makedirs(os.path.join(ROOT, "replays"), exist_ok=True)
    replay_paths = []
    for r, o in real_violations:
        w = witness.find_witness(r, o, REPO, args.tier, seed)
        path = os.path.join(ROOT, "replays", "%s__%s__%s.json" % (args.prop, r["unit"], o["id"].replace("/", "_").replace(":", "_").replace(" ", "_")))
        rep = {"property": args.prop, "unit": r["unit"], "obligation": "%s/%s" % (r["unit"], o["id"]),
               "backend": r["backend"], "source": o.get("source"), "verifier_output": o.get("detail", ""),
               "checker_cmd": r.get("checker_cmd"), "witness": w,
               "kind": "failed-obligation" if w is None else "failed-obligation-with-replayed-input"}
        json.dump(rep, open(path, "w"), indent=1)
        replay_paths.append((path, w))

    wall = time.time() - t0
    if not args.no_evidence:
        write_evidence(args, seed, results, n_obl, n_dis, bounded, undecided, real_violations, known_hits, wall)

    for kf, r, o in known_hits:
        print("KNOWN-FINDING: property=%s %s (%s)" % (args.prop, kf.get("what", ""), kf["obligation"]))
    if real_violations:
        for (r, o), (path, w) in zip(real_violations, replay_paths):
            tail = "" if w is not None else " no-failing-input-found"
            print("VIOLATION property=%s replay=%s obligation=%s/%s%s" % (args.prop, path, r["unit"], o["id"], tail)
                  if False else
                  "VIOLATION property=%s replay=%s%s" % (args.prop, path, tail))
            print("  failed obligation: %s/%s" % (r["unit"], o["id"]))
        sys.exit(1)
    if undecided:
        for u_ in undecided[:20]:
            print("UNDECIDED property=%s reason=%s" % (args.prop, u_.replace("\n", " | ")[:400]))
        sys.exit(2)
    print("OK property=%s obligations=%d discharged=%d bounded_checks=%d wall_s=%.1f" % (
        args.prop, n_obl, n_dis, len(bounded), wall))
    sys.exit(0)


def write_evidence(args, seed, results, n_obl, n_dis, bounded, undecided, violations, known_hits, wall):
    fns = []
    assumptions = []
    rewrites = {}
    samples = []
    per_backend = {}
    canaries = {}
    cmds = []
    solver_s = 0.0
    for r in results:
        for f in r.get("functions_under_contract", []):
            fns.append(f)
        for a in r.get("assumptions", []):
            assumptions.append("%s: %s" % (r["unit"], a))
        for k, v in r.get("rewrites", {}).items():
            rewrites[k] = rewrites.get(k, 0) + v
        if r.get("checker_cmd"):
            cmds.append(r["checker_cmd"])
        b = per_backend.setdefault(r["backend_label"], {"obligations": 0, "discharged": 0, "solver_s": 0.0})
        for o in r["obligations"]:
            if not o.get("_counted") or o.get("bounded"):
                continue
            b["obligations"] += 1
            b["discharged"] += 1 if o["status"] == "discharged" else 0
            b["solver_s"] += o.get("time_s", 0.0)
            solver_s += o.get("time_s", 0.0)
        canaries[r["unit"]] = r.get("canaries", {})
        for o in r["obligations"][:4]:
            if o.get("_counted"):
                samples.append({"unit": r["unit"], "obligation": o["id"], "status": o["status"],
                                "contract": o.get("contract", "")[:600], "backend": r["backend_label"],
                                "bounded": o.get("bounded", False)})
    for b in per_backend.values():
        b["solver_s"] = round(b["solver_s"], 3)
    meta = {}
    mp = os.path.join(ROOT, "units", "_claims.json")
    if os.path.exists(mp):
        meta = json.load(open(mp)).get(args.prop, {})
    proof_level = n_obl > 0
    ev = {
        "property_id": args.prop,
        "tier": args.tier if args.tier in ("quick", "thorough") else "quick",
        "seed": seed,
        "level": "proof" if proof_level else "other",
        "coverage": {
            "obligations": n_obl,
            "discharged": n_dis,
            "checker_cmd": " ; ".join(cmds) or "none",
            "trusted_base": sorted(set(assumptions)) + meta.get("trusted_base", []),
            "explanation": meta.get("explanation", "contract-based deductive verification of functions extracted "
                                                   "mechanically from /repo on this run"),
            "decided_ingredient": meta.get("decided", ""),
            "undecided_part_of_property": meta.get("undecided", ""),
            "functions_under_contract": fns,
            "per_backend": per_backend,
            "solver_seconds": round(solver_s, 3),
            "extraction": {"rewrites": rewrites,
                           "what_is_dropped": "only the rewrites counted here (DESIGN.md 3.2): doc comments and "
                                              "non-semantic attributes (R1), result naming (R2), woven ghost text (R3), "
                                              "assert macros turned into proof obligations (R4), logging statements (R5), "
                                              "error-message format! (R6), region slicing with listed substitutions (R7)"},
            "canaries_failed_as_required": canaries,
            "bounded_checks": [{"unit_obligation": o["id"], "bound": o.get("bound", ""), "status": o["status"],
                                "time_s": o.get("time_s")} for o in bounded],
            "bounded_checks_note": "bounded checks are listed here only; they are never added to obligations/discharged",
            "undecided_on_this_run": undecided,
            "known_findings_reported": [k["obligation"] for k, _, _ in known_hits],
            "assumption_audits": [dict(a, unit=r["unit"]) for r in results for a in r.get("audits", [])],
            "samples": samples or [{"note": "no obligation ran"}],
            "stability_recheck": {r["unit"]: r["stability"] for r in results if r.get("stability")},
            "units": [{"unit": r["unit"], "backend": r["backend_label"], "wall_s": round(r.get("wall_s", 0), 2),
                       "obligations": [dict({"id": o["id"], "status": o["status"], "time_s": o.get("time_s"),
                                             "bounded": o.get("bounded", False)},
                                            **({"solver": o["solver"]} if o.get("solver") else {}))
                                       for o in r["obligations"] if o.get("_counted")]}
                      for r in results],
        },
        "assumptions": sorted(set(assumptions)) + meta.get("assumptions", []),
        "wall_s": round(wall, 2),
        "violations": len(violations),
    }
    os.makedirs(os.path.join(ROOT, "evidence"), exist_ok=True)
    json.dump(ev, open(os.path.join(ROOT, "evidence", args.prop + ".json"), "w"), indent=1)


if __name__ == "__main__":
    main()
