#!/usr/bin/env python3
"""validate MANIFEST.json and evidence/*.json against the given schemas (uses the tooling venv's jsonschema)"""
import json, sys, glob, jsonschema
ok = True
m = json.load(open('/verif/MANIFEST.json'))
try:
    jsonschema.validate(m, json.load(open('/root/.vp/MANIFEST.schema.json'))); print("MANIFEST ok: %d checks, %d n/a" % (len(m["checks"]), len(m.get("not_applicable", []))))
except Exception as e:
    ok = False; print("MANIFEST INVALID", e)
props = [json.loads(l)["id"] for l in open('/verif/properties.jsonl')]
claimed = [c["property_id"] for c in m["checks"]]
na = [n["property_id"] for n in m.get("not_applicable", [])]
missing = [p for p in props if p not in claimed and p not in na]
both = [p for p in props if p in claimed and p in na]
if missing or both:
    ok = False; print("properties neither claimed nor n/a:", missing, "both:", both)
es = json.load(open('/root/.vp/EVIDENCE.schema.json'))
for f in sorted(glob.glob('/verif/evidence/*.json')):
    try:
        e = json.load(open(f)); jsonschema.validate(e, es); print(f, "ok", e["level"], e["coverage"].get("obligations"), e["coverage"].get("discharged"))
    except Exception as ex:
        ok = False; print(f, "INVALID", str(ex)[:300])
sys.exit(0 if ok else 1)
