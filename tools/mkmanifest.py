#!/usr/bin/env python3
"""Regenerate MANIFEST.json from units/*/unit.json, units/_claims.json and units/_not_applicable.json."""
import json, os
ROOT = os.path.dirname(os.path.dirname(os.path.abspath(__file__)))
claims = json.load(open(os.path.join(ROOT, "units/_claims.json")))
na = json.load(open(os.path.join(ROOT, "units/_not_applicable.json")))
props = [json.loads(l)["id"] for l in open(os.path.join(ROOT, "properties.jsonl"))]
units = {}
for n in sorted(os.listdir(os.path.join(ROOT, "units"))):
    p = os.path.join(ROOT, "units", n, "unit.json")
    if os.path.exists(p):
        units[n] = json.load(open(p))
baseline = json.load(open("/root/.vp/BASELINE.json"))["cmd"] if os.path.exists("/root/.vp/BASELINE.json") else ""
checks = []
for pid in props:
    serving = [n for n, u in units.items() if pid in u.get("properties", {})]
    if not serving or pid not in claims:
        continue
    c = claims[pid]
    backends = sorted(set(units[n]["backend"] for n in serving))
    checks.append({
        "property_id": pid,
        "quick_cmd": "./check %s --tier quick" % pid,
        "thorough_cmd": "./check %s --tier thorough" % pid,
        "evidence_file": "/verif/evidence/%s.json" % pid,
        "replay_cmd_template": "./check %s --replay {path}" % pid,
        "engine": "+".join(backends),
        "level_claimed": {
            "category": c.get("category", "proof"),
            "text": (("Deductive proof of contracts on the real functions (text extracted mechanically from /repo on every run): "
                      if c.get("category", "proof") == "proof" else
                      "BOUNDED check of contracts on the real functions (Kani/CBMC with a stated bound on input length; a bounded "
                      "stand-in, NOT counted as proved; text extracted mechanically from /repo on every run): ")
                     + c["decided"] + ".  NOT decided by this check: " + c["undecided"] + "."),
            "design_ref": "DESIGN.md section 9.1 (as built) and section 4, " + pid + " (plan)",
        },
        "level_note": c.get("note", "Trusted: Verus/Z3 (and Kani/CBMC where used), the extraction rewrites R1-R7 counted in the evidence, "
                            "assumed contracts of callees outside the unit (listed per run under coverage.trusted_base; /repo "
                            "callees among them are audited by execution, not proved). Units: " + ", ".join(serving)),
        "technique": c.get("technique", ("contract-based deductive verification (" if c.get("category", "proof") == "proof" else
                                         "contract harness, bounded model checking stand-in (") + " + ".join(
            {"verus": "Verus requires/ensures/invariants on extracted real code", "kani": "Kani/CBMC harnesses on extracted real code"}[b]
            for b in backends) + ")"),
    })
claimed = [c["property_id"] for c in checks]
not_app = [{"property_id": p, "reason": na.get(p, "not built in this session (planned in DESIGN.md section 4); no check is registered, nothing is claimed")}
           for p in props if p not in claimed]
m = {
    "version": 1,
    "setup_cmd": "./setup.sh",
    "hooks": {"guard": "lance_verif", "enable": "n/a: no source hooks; every check extracts the functions from /repo's working tree (tools/rsx.py) "
              "or path-includes the real files", "baseline_off_cmd": baseline, "source_commits": [], "add_only": True},
    "engines": [
        {"name": "verus-units", "path": "tools/vdriver.py", "serves_properties": sorted(set(p for n, u in units.items() if u["backend"] == "verus" for p in u["properties"] if p in claimed)),
         "kind_free_text": "Verus 0.2026.09.13 single-file verification of functions extracted from /repo with woven contracts; canary (ensures false) vacuity guard; obligation and assumption locks"},
        {"name": "kani-units", "path": "tools/kdriver.py", "serves_properties": sorted(set(p for n, u in units.items() if u["backend"] == "kani" for p in u["properties"] if p in claimed)),
         "kind_free_text": "Kani 0.68 / CBMC harness crates that include the extracted text or #[path]-include real files next to shim types"},
        {"name": "native-replay", "path": "replay/", "serves_properties": claimed,
         "kind_free_text": "native harness with path dependencies on the real crates: counterexample search for failed obligations and audit of assumed callee contracts"},
    ],
    "checks": checks,
    "not_applicable": not_app,
    "notes": "Exit codes: 0 OK / KNOWN-FINDING, 1 VIOLATION, 2 UNDECIDED (lost anchor, unsupported construct, resource limit, vacuity or new assumption) -- see DESIGN.md 3.5. "
             "fix: commits in /repo and their witnesses are recorded in known_findings.json.",
}
json.dump(m, open(os.path.join(ROOT, "MANIFEST.json"), "w"), indent=1)
print("claimed:", claimed)
