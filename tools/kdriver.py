"""Run one Kani unit.

A Kani unit = a harness crate committed under /verif/kani/<crate> (Cargo.toml, src/lib.rs with shim
types + #[kani::proof] harnesses) + a list of extractions from /repo written into the build copy of the
crate as src/gen/<name>.rs (include!d by lib.rs) and/or real files #[path]-included from /repo.

One obligation per harness.  Harness metadata (tier, bounded?, bound, timeout) lives in unit.json.
"""
import concurrent.futures as cf
import hashlib
import json
import os
import re
import shutil
import signal
import subprocess
import time

import rsx

ROOT = os.path.dirname(os.path.dirname(os.path.abspath(__file__)))
KANI_FLAGS = ["-Z", "function-contracts", "-Z", "stubbing"]


def _env():
    e = dict(os.environ)
    e["CARGO_NET_OFFLINE"] = "true"
    e.pop("RUSTFLAGS", None)
    return e


def _run(cmd, cwd, timeout, mem_gb=None, log=None):
    """run with wall timeout (+ optional address-space cap); kill the whole process group on timeout."""
    pre = ""
    if mem_gb:
        pre = "ulimit -v %d; " % (int(mem_gb) * 1024 * 1024)
    t0 = time.time()
    p = subprocess.Popen(["bash", "-c", pre + "exec " + " ".join("'%s'" % c.replace("'", "'\\''") for c in cmd)],
                         cwd=cwd, env=_env(), stdout=subprocess.PIPE, stderr=subprocess.STDOUT, text=True,
                         start_new_session=True)
    try:
        out, _ = p.communicate(timeout=timeout)
        status = "done"
    except subprocess.TimeoutExpired:
        try:
            os.killpg(p.pid, signal.SIGKILL)
        except ProcessLookupError:
            pass
        out, _ = p.communicate()
        status = "timeout"
    if log:
        open(log, "w").write(out)
    return status, p.returncode, out, time.time() - t0


def prepare(u, repo):
    """copy the harness crate into build/, write the extracted text, return (dir, functions, rewrites)."""
    name = u["name"]
    src = os.path.join(ROOT, "kani", u.get("crate", name))
    dst = os.path.join(ROOT, "build", "kani", name)
    os.makedirs(dst, exist_ok=True)
    # refresh sources but keep target/
    for entry in os.listdir(src):
        s, d = os.path.join(src, entry), os.path.join(dst, entry)
        if os.path.isdir(s):
            if os.path.exists(d):
                shutil.rmtree(d)
            shutil.copytree(s, d)
        else:
            shutil.copyfile(s, d)
    gen = os.path.join(dst, "src", "gen")
    os.makedirs(gen, exist_ok=True)
    fns = []
    rewrites = {}
    for ex in u.get("extracts", []):
        parts = []
        for addr in ex["addresses"]:
            e = rsx.extract(repo, addr, ex.get("rules", []))
            text = e.text
            for a, b in ex.get("subst", []):
                pat = re.compile(r"(?<![A-Za-z0-9_])" + re.escape(a) + r"(?![A-Za-z0-9_])")
                text, n = pat.subn(b, text)
                rsx._count(e.rewrites, "R7.subst[%s=>%s]" % (a, b), n)
            if ex.get("wrap_impl"):
                # a method is put back inside an impl block with the header the address names (the header text is
                # taken from the address, which must match the real impl header for the extraction to succeed)
                hdr = [x.strip() for x in addr.split(" :: ") if x.strip().startswith("impl")]
                if hdr:
                    text = hdr[-1] + " {\n" + text + "\n}\n"
                    rsx._count(e.rewrites, "wrapped_in_own_impl_header")
            if ex.get("wrap"):
                text = ex["wrap"] + "\n{\n" + ex.get("wrap_prefix", "") + text + ex.get("wrap_suffix", "") + "\n}\n" + ex.get("wrap_close", "")
                rsx._count(e.rewrites, "R7.region_wrapped_as_fn")
            parts.append(text)
            fns.append({"unit": name, "address": addr, "file": e.path.replace(repo.rstrip("/") + "/", ""), "line": e.line,
                        "sha256_of_extracted_text": e.sha256, "contracted": True, "rewrites": e.rewrites})
            for k, v in e.rewrites.items():
                rewrites[k] = rewrites.get(k, 0) + v
        open(os.path.join(gen, ex["out"]), "w").write("\n".join(parts) + "\n")
    for pi in u.get("path_includes", []):
        p = os.path.join(repo, pi)
        if not os.path.exists(p):
            raise rsx.ExtractError("anchor lost: file %s missing" % p)
        raw = open(p, "rb").read()
        fns.append({"unit": name, "address": pi + " (whole file, #[path]-included, no rewrite)", "file": pi, "line": 1,
                    "sha256_of_extracted_text": hashlib.sha256(raw).hexdigest(), "contracted": True, "rewrites": {}})
    lock = os.path.join(repo, "Cargo.lock")
    if os.path.exists(lock) and u.get("use_repo_lock", True):
        shutil.copyfile(lock, os.path.join(dst, "Cargo.lock"))
    return dst, fns, rewrites


_RES_RE = re.compile(r"VERIFICATION:- (SUCCESSFUL|FAILED)")


def parse_kani(out):
    """-> dict(status, failed_checks, covers)"""
    m = _RES_RE.findall(out)
    res = {"verdict": m[-1] if m else None, "failed_checks": [], "covers": {}, "unwinding_failed": False}
    # failed checks summary
    for fm in re.finditer(r"Failed Checks: (.*?)\n\s*File: \"([^\"]*)\", line (\d+)", out):
        res["failed_checks"].append({"check": fm.group(1).strip(), "file": fm.group(2), "line": int(fm.group(3))})
    if "unwinding assertion" in out and re.search(r"Failed Checks: unwinding assertion", out):
        res["unwinding_failed"] = True
    cm = re.search(r"\*\* (\d+) of (\d+) cover properties satisfied", out)
    if cm:
        res["covers"] = {"satisfied": int(cm.group(1)), "total": int(cm.group(2))}
    tm = re.search(r"Verification Time: ([0-9.]+)s", out)
    if tm:
        res["verification_time_s"] = float(tm.group(1))
    sm = re.search(r"Stub: (.*)", out)
    return res


def _solver_flags(h):
    """decision procedure behind CBMC for this harness (unit.json `solver`): CaDiCaL (Kani's default) when absent.
    The harnesses whose obligation is `quotient by a constant` use z3 (CBMC's SMT2 back end): a SAT solver has to
    prove two bit-blasted 64-bit dividers equivalent (> 10 min measured), z3 rewrites them to one term (seconds)."""
    return ["--solver", h["solver"]] if h.get("solver") else []


def run_harness(dst, h, tier, extra_flags):
    name = h["name"]
    timeout = h.get("timeout_s", 600) * (3 if tier == "thorough" else 1)
    mem = h.get("mem_gb", 12 if tier != "thorough" else 24)
    cmd = ["cargo", "kani"] + KANI_FLAGS + extra_flags + ["--harness", name, "--exact"] + _solver_flags(h)
    log = os.path.join(dst, "log_%s.txt" % name)
    status, rc, out, wall = _run(cmd, dst, timeout, mem, log)
    r = parse_kani(out)
    r.update({"name": name, "wall_s": wall, "run_status": status, "rc": rc, "cmd": " ".join(cmd), "tail": out[-3000:]})
    return r


def playback(dst, h, extra_flags):
    """ask Kani for concrete values of a failing harness"""
    cmd = ["cargo", "kani"] + KANI_FLAGS + extra_flags + ["--harness", h["name"], "--exact"] + _solver_flags(h) + [
        "-Z", "concrete-playback", "--concrete-playback=print"]
    status, rc, out, wall = _run(cmd, dst, h.get("timeout_s", 600) * 2, max(h.get("mem_gb", 12), 12))
    return parse_playback(out)



def native_playback(dst, h, extra_flags, w, timeout=1500):
    """EXECUTE Kani's counterexample natively: the unit test Kani printed for the failed check (concrete values of every
    kani::any()) is appended to the harness module of the build copy and run with `cargo kani playback`.  The harness
    calls the real text (path-included real file / real crate, or the text extracted from /repo next to shim types),
    so a failing native run is the verifier's counterexample reproduced by execution.  -> dict or None"""
    if not w or not w.get("unit_test"):
        return None
    text = w["unit_test"]
    m = re.search(r"fn (kani_concrete_playback_[A-Za-z0-9_]+)\(", text)
    if not m:
        return None
    tname = m.group(1)
    lib = os.path.join(dst, "src", "lib.rs")
    orig = open(lib).read()
    body = orig.rstrip()
    if not body.endswith("}"):
        return None
    open(lib, "w").write(body[:-1] + "\n" + text + "\n}\n")
    try:
        st2, rc2, out2, wall2 = _run(["cargo", "kani", "playback", "-Z", "concrete-playback", "--", tname], dst, timeout, None)
    finally:
        open(lib, "w").write(orig)
    failed = bool(re.search(r"test result: FAILED", out2)) and tname in out2
    pm = re.search(r"panicked at ([^\n]*)\n([^\n]*)", out2)
    return {"kind": "kani-concrete-playback-executed-natively", "test_name": tname, "unit_test": text,
            "harness": h["name"], "reproduced": failed,
            "panic": (pm.group(1) + " :: " + pm.group(2)).strip()[:400] if pm else None,
            "ran": "test result:" in out2,
            "cmd": "cd %s && cargo kani playback -Z concrete-playback -- %s" % (dst, tname), "wall_s": round(wall2, 1)}


def parse_playback(out):
    """Kani prints one unit test per failed check AND per satisfied cover; keep the first one that belongs to a
    failed assertion/overflow check (not a cover).  -> dict with the little-endian bytes of every kani::any()."""
    blocks = re.findall(r"Concrete playback unit test for `[^`]*`:\s*```\s*(.*?)```", out, re.S)
    blocks = [b for b in blocks if not re.search(r"Check for `cover`", b)]
    if not blocks:
        return None
    test = blocks[0]
    body = test.split("concrete_vals", 1)[-1]
    raw = re.findall(r"vec!\[([0-9, ]*)\]", body)
    vals_hex = []
    for r in raw:
        bs = [int(x) for x in r.replace(" ", "").split(",") if x]
        if not bs:
            continue
        vals_hex.append("%x" % int.from_bytes(bytes(bs), "little"))
    shown = re.findall(r"//\s*(\S+)\s*\n\s*vec!\[", body)
    return {"kind": "kani-concrete-playback", "unit_test": test.strip()[:200000],
            "values_in_order_of_kani_any": shown, "any_values_hex": ",".join(vals_hex)}


def run_unit(u, repo, tier, seed, relock=False, prop=None):
    t0 = time.time()
    name = u["name"]
    res = {"unit": name, "backend": "kani", "backend_label": "kani(cbmc)", "obligations": [], "undecided": [],
           "assumptions": list(u.get("assumptions", [])), "functions_under_contract": [], "rewrites": {}, "canaries": {}}
    try:
        dst, fns, rewrites = prepare(u, repo)
    except (rsx.ExtractError, OSError) as e:
        res["undecided"].append("extraction failed: %s" % e)
        res["wall_s"] = time.time() - t0
        return res
    res["functions_under_contract"] = fns
    res["rewrites"] = rewrites
    extra = u.get("kani_flags", [])
    # which harnesses: those for this property, for this tier (thorough includes quick)
    hs = [h for h in u["harnesses"] if (prop is None or prop in h.get("properties", list(u["properties"].keys())))
          and (tier == "thorough" or h.get("tier", "quick") == "quick")]
    # seeded sample of the expensive ones in the quick tier
    samp = [h for h in u["harnesses"] if h.get("tier") == "sample" and (prop is None or prop in h.get("properties", list(u["properties"].keys())))]
    if tier != "thorough" and samp:
        k = u.get("quick_sample", 1)
        import random
        rnd = random.Random(seed)
        hs += rnd.sample(samp, min(k, len(samp)))
    elif tier == "thorough":
        hs += [h for h in samp if h not in hs]
    by_solver = {}
    for h in hs:
        by_solver[h.get("solver", "cadical")] = by_solver.get(h.get("solver", "cadical"), 0) + 1
    res["checker_cmd"] = "cd %s && CARGO_NET_OFFLINE=true cargo kani %s --harness <each of %d harnesses> --exact [--solver: %s]" % (
        dst, " ".join(KANI_FLAGS + extra), len(hs), ", ".join("%s x%d" % kv for kv in sorted(by_solver.items())))
    for sv, n in sorted(by_solver.items()):
        if sv != "cadical":
            res["assumptions"].append("CBMC's SMT2 back end with %s decides %d harness(es) (quotient-by-constant obligations); "
                                      "CaDiCaL decides the rest" % (sv, n))
    if not hs:
        res["wall_s"] = time.time() - t0
        return res
    # compile once (codegen only) so that the parallel runs do not race on the build
    status, rc, out, wall = _run(["cargo", "kani"] + KANI_FLAGS + extra + ["--only-codegen"], dst, 1800, None,
                                 os.path.join(dst, "log_codegen.txt"))
    if status != "done" or rc != 0:
        errs = "\n".join(l for l in out.split("\n") if l.startswith("error"))[:1500]
        res["undecided"].append("harness crate does not compile against the working tree (shim lacks an item the extracted "
                                "text uses, or unsupported construct): %s" % (errs or out[-800:]))
        res["wall_s"] = time.time() - t0
        return res
    par = u.get("parallel", 6)
    if tier == "thorough":
        par = u.get("parallel_thorough", par)
    with cf.ThreadPoolExecutor(max_workers=par) as ex:
        results = list(ex.map(lambda h: run_harness(dst, h, tier, extra), hs))
    lock_path = os.path.join(u["dir"], "obligations.lock")
    lock = [l.strip() for l in open(lock_path)] if os.path.exists(lock_path) else []
    lock = [l for l in lock if l and not l.startswith("#")]
    cov_ok = 0
    cov_bad = []
    for h, r in zip(hs, results):
        o = {"id": h["name"], "contract": h.get("contract", ""), "time_s": r.get("verification_time_s", r["wall_s"]),
             "bounded": bool(h.get("bounded")), "bound": h.get("bound", ""),
             "solver": h.get("solver", "cadical"),
             "source": {"harness": "kani/%s/src/lib.rs :: %s" % (u.get("crate", name), h["name"])}}
        if r["run_status"] == "timeout":
            o["status"] = "undecided"
            o["detail"] = "wall-clock cap hit (%.0fs)" % r["wall_s"]
        elif r["verdict"] == "SUCCESSFUL":
            o["status"] = "discharged"
            # reachability: every kani::cover! must be SATISFIED
            cv = r.get("covers") or {}
            if cv and cv.get("satisfied") != cv.get("total"):
                o["status"] = "undecided"
                o["detail"] = "VACUOUS: only %s of %s cover properties satisfied" % (cv.get("satisfied"), cv.get("total"))
                cov_bad.append(h["name"])
            elif cv:
                cov_ok += cv["total"]
            if h.get("require_cover", True) and not cv:
                o["status"] = "undecided"
                o["detail"] = "VACUOUS?: harness reported no cover property"
        elif r["verdict"] == "FAILED":
            only_unwind = r["failed_checks"] and all("unwinding assertion" in c["check"] for c in r["failed_checks"])
            tool_limit = (not r["failed_checks"]) or re.search(r"Out of memory|CBMC failed with status|std::bad_alloc|Killed", r["tail"])
            if tool_limit and not any("unwinding" not in c["check"] for c in r["failed_checks"]):
                o["status"] = "undecided"
                o["detail"] = "tool limit, not a refutation (CBMC ran out of memory / crashed; no failed check reported): %s" % r["tail"][-300:]
            elif only_unwind:
                o["status"] = "undecided"
                o["detail"] = "unwinding assertion failed: the bound in the harness is too small for the current code"
            elif h["name"] in lock or relock:
                o["status"] = "failed"
                o["detail"] = "Kani: VERIFICATION FAILED\n" + "\n".join(
                    "  failed check: %s (%s:%s)" % (c["check"], c["file"], c["line"]) for c in r["failed_checks"][:10])
                w = playback(dst, h, extra)
                if w:
                    w["note"] = "values of kani::any() in call order; the harness is kani/%s/src/lib.rs::%s over text extracted from /repo" % (
                        u.get("crate", name), h["name"])
                    o["kani_playback"] = w
                    o["detail"] += "\nKani concrete playback (values of kani::any() in call order): %s" % w["values_in_order_of_kani_any"]
                # the counterexample counts as a witness only once it fails on the REAL function (native crate with a
                # path dependency on /repo, built on demand); otherwise the violation is reported without an input
                if not u.get("replay_native") or u.get("always_native_playback"):
                    npb = native_playback(dst, h, extra, w)
                    if npb and npb.get("reproduced"):
                        npb["found"] = True
                        npb["key"] = "kani-playback:%s:%s" % (name, h["name"])
                        npb["fidelity"] = u.get("playback_fidelity", "executed natively on the text extracted from /repo, compiled next to the unit's shim types")
                        npb["replayed_against"] = npb["fidelity"]
                        npb["values_of_kani_any_in_call_order"] = (w or {}).get("values_in_order_of_kani_any")
                        o["witness"] = npb
                        o["detail"] += "\ncounterexample executed natively (cargo kani playback): test %s FAILED: %s" % (npb["test_name"], npb.get("panic"))
                    elif npb:
                        o["detail"] += "\nnative execution of Kani's counterexample did not fail: %s" % json.dumps({k: v for k, v in npb.items() if k != "unit_test"})[:600]
                if u.get("replay_native"):
                    import witness
                    d = witness.run_native(repo, u["replay_native"], "%s:%s" % (name, h["name"]), seed,
                                           200000 if tier != "thorough" else 5000000, (w or {}).get("any_values_hex"))
                    if d.get("found"):
                        d["replayed_against"] = "the real crate in /repo (native harness /verif/%s, path dependency)" % u["replay_native"]["crate"]
                        d["kani_playback"] = w
                        o["witness"] = d
                    else:
                        o["detail"] += "\nnative replay on the real function: %s" % json.dumps(d)[:600]
            else:
                o["status"] = "undecided"
                o["detail"] = "failing harness not in obligations.lock"
        else:
            o["status"] = "undecided"
            o["detail"] = "no verdict (rc=%s): %s" % (r["rc"], r["tail"][-600:])
        o["kani"] = {k: r.get(k) for k in ("wall_s", "verification_time_s", "covers", "run_status")}
        res["obligations"].append(o)
    if relock:
        bad = [o["id"] for o in res["obligations"] if o["status"] != "discharged"]
        if bad:
            res["undecided"].append("relock refused: %s" % bad)
        else:
            names = sorted(set(lock) | set(o["id"] for o in res["obligations"]))
            open(lock_path, "w").write("# harnesses green on the pinned tree (written by ./check --relock)\n" + "".join(n + "\n" for n in names))
    res["canaries"] = {"cover_properties_satisfied": cov_ok, "harnesses_with_unsatisfied_cover": cov_bad}
    # assumption scan of the harness crate
    lib = open(os.path.join(dst, "src", "lib.rs")).read()
    for m in re.finditer(r"#\[kani::stub\(([^)]*)\)\]", lib):
        res["assumptions"].append("kani::stub: " + re.sub(r"\s+", " ", m.group(1)))
    n_assume = len(re.findall(r"kani::assume\(", lib))
    if n_assume:
        res["assumptions"].append("%d kani::assume(..) harness preconditions in kani/%s/src/lib.rs (input domains, stated per harness)" % (
            n_assume, u.get("crate", name)))
    res["assumptions"] = sorted(set(res["assumptions"]))
    res["wall_s"] = time.time() - t0
    return res
