def run_unit(u, repo, tier, seed, relock=False, prop=None):
    raise SystemExit("kani driver not built yet")
