#!/usr/bin/env python3
"""Verus unit runner: assemble a single Verus file from a unit template + text
extracted from /repo's working tree, run verus, run the canary batches, compare
with the committed locks, and return a structured result.

Template directives (all start with `//@`):

  //@extract <address>          start of an extraction block
  //@ rules R1 R4 R5 R6         rewrites to apply (default R1)
  //@ result r                  R2: name the result
  //@ spec                      following `//@|` lines = requires/ensures text
  //@ loop <k>                  following `//@|` lines = invariant/decreases of k-th loop
  //@ at <position>             following `//@|` lines = ghost text at that position
  //@ nocanary                  do not generate a canary for this fn (must be justified in a comment)
  //@end
  //@consts <file> :: <regex>   extract every `pub const NAME: T = ..;` whose NAME matches regex
"""
import json
import os
import re
import subprocess
import sys
import time

sys.path.insert(0, os.path.dirname(os.path.abspath(__file__)))
import rsx  # noqa: E402

VERUS = os.environ.get("VERUS", "verus")


class Block:
    def __init__(self, address):
        self.address = address
        self.rules = ["R1"]
        self.result = None
        self.spec = []
        self.loops = {}
        self.inserts = []
        self.nocanary = False
        self.wrap = None       # R7: fn signature text wrapping a region
        self.subst = []        # R7: (pattern, replacement) token substitutions listed in the template
        self.tail = None       # R7: tail expression appended after the region (returns locals the region assigns)
        self.name = None
        self.loopfree_fallback = False


def parse_template(text):
    """-> list of ('text', str) | ('extract', Block) | ('consts', (file, regex))"""
    out = []
    cur = None
    section = None
    buf = []
    for line in text.split("\n"):
        s = line.strip()
        if s.startswith("//@extract "):
            if buf:
                out.append(("text", "\n".join(buf)))
                buf = []
            cur = Block(s[len("//@extract "):].strip())
            section = None
            continue
        if cur is not None:
            if s == "//@end":
                out.append(("extract", cur))
                cur = None
                continue
            if s.startswith("//@|"):
                payload = line.split("//@|", 1)[1]
                if section is None:
                    raise ValueError("payload outside section: " + line)
                section.append(payload)
                continue
            if s.startswith("//@"):
                d = s[3:].strip().split()
                if not d:
                    continue
                if d[0] == "rules":
                    cur.rules = d[1:]
                elif d[0] == "result":
                    cur.result = d[1]
                elif d[0] == "spec":
                    section = cur.spec
                elif d[0] == "loop":
                    section = cur.loops.setdefault(int(d[1]), [])
                elif d[0] == "at":
                    section = []
                    cur.inserts.append((d[1], section))
                elif d[0] == "nocanary":
                    cur.nocanary = True
                elif d[0] == "wrap":
                    section = []
                    cur.wrap = section
                elif d[0] == "tail":
                    # //@ tail <expr> : the wrapped fn returns this expression (a local / tuple of locals that the
                    # region assigns and the surrounding code reads afterwards); counted as R7.tail_expr_appended
                    cur.tail = s[3:].strip()[len("tail"):].strip()
                elif d[0] == "subst":
                    # //@ subst <from> => <to>
                    rest = s[3:].strip()[len("subst"):].strip()
                    a, b = rest.split("=>")
                    cur.subst.append((a.strip(), b.strip()))
                elif d[0] == "name":
                    cur.name = d[1]
                elif d[0] == "loopfree_fallback":
                    # opt-in: if the body has NO loop left (all loop anchors lost), verify the function contract alone:
                    # for loop-free code no invariant is needed, so a proof failure is about the contract
                    cur.loopfree_fallback = True
                else:
                    raise ValueError("unknown directive: " + line)
                continue
            if s == "" or s.startswith("//"):
                continue
            raise ValueError("non-directive line inside extract block: " + line)
        if s.startswith("//@flagset "):
            if buf:
                out.append(("text", "\n".join(buf)))
                buf = []
            f, rx, ex = [x.strip() for x in s[len("//@flagset "):].split("::")]
            out.append(("flagset", (f, rx, ex)))
            continue
        if s.startswith("//@implconsts "):
            if buf:
                out.append(("text", "\n".join(buf)))
                buf = []
            out.append(("implconsts", s[len("//@implconsts "):].strip()))
            continue
        if s.startswith("//@consts "):
            if buf:
                out.append(("text", "\n".join(buf)))
                buf = []
            f, rx = s[len("//@consts "):].split("::", 1)
            out.append(("consts", (f.strip(), rx.strip())))
            continue
        buf.append(line)
    if buf:
        out.append(("text", "\n".join(buf)))
    return out


_SPEC_MODIFIERS = ("proof", "spec", "open", "closed", "exec", "broadcast", "uninterp", "pub", "tracked", "ghost")


def find_template_lemmas(text):
    """names + byte offsets of the `ensures` keyword of every `proof fn` in template text that is
    not external_body / axiom."""
    toks = rsx.lex(text)
    res = []
    ci = rsx.code_indices(toks)
    for n, k in enumerate(ci):
        t = toks[k]
        if t.kind == "ident" and t.text == "fn" and n > 0:
            # look back over modifiers
            mods = []
            m = n - 1
            while m >= 0 and toks[ci[m]].kind == "ident" and toks[ci[m]].text in _SPEC_MODIFIERS:
                mods.append(toks[ci[m]].text)
                m -= 1
            # skip `pub(crate)`
            if "proof" not in mods:
                continue
            # attributes immediately before?
            pre = text[max(0, toks[ci[m + 1]].start - 200):toks[ci[m + 1]].start]
            last_attr = pre.rsplit("\n\n", 1)[-1]
            if "external_body" in last_attr or "verifier::axiom" in last_attr:
                continue
            name = toks[ci[n + 1]].text
            # find body `{` and `ensures` before it
            j = n + 1
            ens = None
            while j < len(ci):
                tj = toks[ci[j]]
                if tj.kind == "punct" and tj.text in ("(", "["):
                    close = rsx.match_close(toks, ci[j])
                    while ci[j] < close:
                        j += 1
                    continue
                if tj.kind == "ident" and tj.text == "ensures" and ens is None:
                    ens = tj
                if tj.kind == "punct" and tj.text == "{":
                    break
                if tj.kind == "punct" and tj.text == ";":
                    break
                j += 1
            if ens is not None:
                res.append((name, ens.end))
    return res


def _canary_spec(spec_text):
    """insert `false,` right after the `ensures` keyword (or add an ensures clause)."""
    toks = rsx.lex(spec_text)
    for t in toks:
        if t.kind == "ident" and t.text == "ensures":
            return spec_text[:t.end] + " false, " + spec_text[t.end:]
    # no ensures: place before decreases if present else at end
    for t in toks:
        if t.kind == "ident" and t.text == "decreases":
            return spec_text[:t.start] + " ensures false, " + spec_text[t.start:]
    return spec_text.rstrip().rstrip(",") + (",\n" if spec_text.strip() else "") + " ensures false,\n"


def _apply_subst(text, subst, rw):
    for a, b in subst:
        # token-boundary replacement of the literal text `a`
        pat = re.compile(r"(?<![A-Za-z0-9_])" + re.escape(a) + r"(?![A-Za-z0-9_])")
        text, n = pat.subn(b, text)
        rsx._count(rw, "R7.subst[%s=>%s]" % (a, b), n)
    return text


class Assembled:
    def __init__(self):
        self.text = ""
        self.functions = []      # dicts: address, file, line, sha256, rewrites, fn_name, canary(bool)
        self.rewrites = {}
        self.line_map = []       # (first_line, last_line, address)
        self.lemmas = []         # names of template lemmas


def assemble(repo, template_text, canary_set=None):
    """canary_set: None (normal) or a set of canary keys (fn address or 'lemma:<name>') to falsify."""
    parts = parse_template(template_text)
    asm = Assembled()
    chunks = []

    def cur_line():
        return sum(c.count("\n") for c in chunks) + 1

    for kind, val in parts:
        if kind == "text":
            txt = val
            lem = find_template_lemmas(txt)
            for name, _ in lem:
                asm.lemmas.append(name)
            if canary_set:
                # apply from the back so offsets stay valid
                for name, off in sorted(lem, key=lambda x: -x[1]):
                    if "lemma:" + name in canary_set:
                        txt = txt[:off] + " false, " + txt[off:]
            chunks.append(txt + "\n")
        elif kind == "flagset":
            # generated (not extracted) spec text over the NAMES of the consts found in /repo: the known-bit mask and
            # the statement that the flags are distinct single bits.  Names come from the working tree on every run.
            f, rx, ex = val
            src = rsx._load(repo, f)
            items = rsx.parse_items(src.toks, 0, len(src.toks))
            names = [it.name for it in items if it.kind == "const" and it.name and re.fullmatch(rx, it.name)
                     and not re.fullmatch(ex, it.name)]
            if not names:
                raise rsx.ExtractError("anchor lost: no const matching %s in %s" % (rx, f))
            mask = " | ".join(["0u64"] + names)
            wf = ["(%s != 0 && %s & sub(%s, 1) == 0)" % (n, n, n) for n in names]
            wf += ["%s != %s" % (a, b) for i, a in enumerate(names) for b in names[i + 1:]]
            unk = ex
            gen = ("pub open spec fn gen_known_mask() -> u64 { %s }\n"
                   "pub open spec fn gen_flags_distinct_single_bits() -> bool { %s }\n"
                   "pub open spec fn gen_flag_count() -> int { %d }\n"
                   "/// generated: every known flag is a distinct single bit, %s is a single bit, and the known flags\n"
                   "/// are exactly the bits below it (no hole an unknown bit could hide in)\n"
                   "pub proof fn gen_lemma_flag_layout()\n"
                   "    ensures gen_flags_distinct_single_bits(),\n"
                   "            %s != 0 && %s & sub(%s, 1) == 0,\n"
                   "            gen_known_mask() == sub(%s, 1),\n"
                   "{\n"
                   "    assert(%s) by (bit_vector);\n"
                   "    assert(%s != 0 && %s & sub(%s, 1) == 0) by (bit_vector);\n"
                   "    assert((%s) == sub(%s, 1)) by (bit_vector);\n"
                   "}\n" % (mask, "\n && ".join(wf), len(names), unk, unk, unk, unk, unk,
                             "\n && ".join(wf), unk, unk, unk, mask, unk))
            for name_, _ in find_template_lemmas(gen):
                asm.lemmas.append(name_)
            if canary_set and "lemma:gen_lemma_flag_layout" in canary_set:
                gen = gen.replace("    ensures gen_flags_distinct_single_bits(),", "    ensures false, gen_flags_distinct_single_bits(),")
            chunks.append(gen)
            asm.generated = getattr(asm, "generated", []) + [{"flagset": names}]
        elif kind == "implconsts":
            # every `const` item of the addressed impl block, whatever their names (so a refactor that introduces
            # a new associated const does not lose the unit)
            src, lo, hi, item, k2 = rsx.resolve(repo, val)
            if item is None or item.kind != "impl" or item.body_open is None:
                raise rsx.ExtractError("implconsts: %s is not an impl block" % val)
            n = 0
            for it in rsx.parse_items(src.toks, item.body_open + 1, item.body_close):
                if it.kind == "const" and it.name:
                    rw = {}
                    t = rsx.apply_token_rewrites(src.toks, it.tstart, it.tend, {"R1"}, rw).strip()
                    if not t.startswith("pub"):
                        # visibility only: Verus refuses a pub const that mentions a private one
                        t = "pub " + t
                        rsx._count(rw, "R1.private_const_made_pub")
                    raw = src.text[src.toks[it.tstart].start:src.toks[it.tend - 1].end]
                    chunks.append(t + "\n")
                    for k_, v_ in rw.items():
                        asm.rewrites[k_] = asm.rewrites.get(k_, 0) + v_
                    asm.functions.append({"address": "%s :: const %s" % (val, it.name), "file": src.path,
                                          "line": src.line_of(it.tstart), "sha256": rsx.hashlib.sha256(raw.encode()).hexdigest(),
                                          "rewrites": rw, "fn_name": None, "contracted": False})
                    n += 1
        elif kind == "consts":
            f, rx = val
            # `<regex> :: optional` -- zero matches is fine (the directive then only makes FUTURE constants visible)
            optional = False
            if rx.endswith(":: optional"):
                optional = True
                rx = rx[:-len(":: optional")].strip()
            src = rsx._load(repo, f)
            items = rsx.parse_items(src.toks, 0, len(src.toks))
            pat = re.compile(rx)
            n = 0
            for it in items:
                if it.kind == "const" and it.name and pat.fullmatch(it.name):
                    rw = {}
                    t = rsx.apply_token_rewrites(src.toks, it.tstart, it.tend, {"R1"}, rw)
                    raw = src.text[src.toks[it.tstart].start:src.toks[it.tend - 1].end]
                    l0 = cur_line()
                    chunks.append(t.strip() + "\n")
                    asm.functions.append({"address": "%s :: const %s" % (f, it.name), "file": src.path,
                                          "line": src.line_of(it.tstart), "sha256": rsx.hashlib.sha256(raw.encode()).hexdigest(),
                                          "rewrites": rw, "fn_name": None, "contracted": False})
                    for k_, v_ in rw.items():
                        asm.rewrites[k_] = asm.rewrites.get(k_, 0) + v_
                    n += 1
            if n == 0 and not optional:
                raise rsx.ExtractError("anchor lost: no const matching %s in %s" % (rx, f))
        else:
            b = val
            spec = "".join(x + "\n" for x in b.spec)
            contracted = bool(spec.strip())
            if canary_set and b.address in canary_set:
                spec = _canary_spec(spec)
            loops = {k: "\n".join(v) for k, v in b.loops.items()}
            inserts = [(pos, "\n".join(v)) for pos, v in b.inserts]
            if b.wrap is not None:
                # R7 region slicing: wrap region text as a fn
                src, lo, hi, item, kind2 = rsx.resolve(repo, b.address)
                rw = {}
                raw = src.text[src.toks[lo].start:src.toks[hi - 1].end]
                region = _apply_subst(raw, b.subst, rw)
                rsx._count(rw, "R7.region_wrapped_as_fn")
                sig = "\n".join(b.wrap)
                # weave on a synthetic fn made of the wrap signature + the verbatim region, so that loop
                # contracts and structural inserts work exactly as for whole fns
                if b.tail:
                    region = region + "\n" + b.tail
                    rsx._count(rw, "R7.tail_expr_appended[%s]" % b.tail)
                syn = rsx.Source("<region of %s>" % src.path, text=sig + "\n{\n" + region + "\n}\n")
                its = [it for it in rsx.parse_items(syn.toks, 0, len(syn.toks)) if it.kind == "fn"]
                if len(its) != 1:
                    raise rsx.ExtractError("wrap signature of %s does not parse as one fn" % b.address)
                try:
                    text = rsx.weave_fn(syn, its[0], set(b.rules), rw, spec=spec or None, loops=loops, inserts=inserts)
                except rsx.ExtractError as e:
                    if not (b.loopfree_fallback and "(has 0 loops)" in str(e)):
                        raise
                    rw = {"fallback.loop_contracts_dropped_body_is_loop_free": 1, "R7.region_wrapped_as_fn": 1}
                    text = rsx.weave_fn(syn, its[0], set(b.rules), rw, spec=spec or None, loops={},
                                        inserts=[(p_, t_) for p_, t_ in inserts if not p_.startswith("loop:")])
                ex = rsx.Extracted(b.address, src.path, src.line_of(lo), raw, text, rw)
                fn_name = b.name
            else:
                try:
                    ex = rsx.extract(repo, b.address, b.rules, spec=spec or None, result_name=b.result,
                                     loops=loops, inserts=inserts)
                except rsx.ExtractError as e:
                    if not (b.loopfree_fallback and "(has 0 loops)" in str(e)):
                        raise
                    ex = rsx.extract(repo, b.address, b.rules, spec=spec or None, result_name=b.result, loops={},
                                     inserts=[(p_, t_) for p_, t_ in inserts if not p_.startswith("loop:")])
                    rsx._count(ex.rewrites, "fallback.loop_contracts_dropped_body_is_loop_free")
                if b.subst:
                    ex.text = _apply_subst(ex.text, b.subst, ex.rewrites)
                fn_name = b.name or b.address.split("::")[-1].strip().split()[-1]
            l0 = cur_line()
            chunks.append(ex.text.rstrip() + "\n")
            l1 = cur_line() - 1
            asm.line_map.append((l0, l1, b.address))
            asm.functions.append({"address": b.address, "file": ex.path, "line": ex.line, "sha256": ex.sha256,
                                  "rewrites": ex.rewrites, "fn_name": fn_name, "contracted": contracted,
                                  "nocanary": b.nocanary,
                                  "contract": spec.strip()})
            for k_, v_ in ex.rewrites.items():
                asm.rewrites[k_] = asm.rewrites.get(k_, 0) + v_
    asm.text = "".join(chunks)
    return asm


ASSUME_PATTERNS = [
    ("external_body", re.compile(r"#\[verifier::external_body\]")),
    ("external_type_specification", re.compile(r"#\[verifier::external_type_specification\]")),
    ("assume_specification", re.compile(r"\bassume_specification\b")),
    ("assume", re.compile(r"\bassume\s*\(")),
    ("admit", re.compile(r"\badmit\s*\(")),
    ("axiom", re.compile(r"\baxiom\b")),
    ("external", re.compile(r"#\[verifier::external\]")),
    ("uninterp", re.compile(r"\buninterp\s+spec\s+fn\b")),
    ("bit_vector", re.compile(r"by\s*\(\s*bit_vector\s*\)")),
    ("nonlinear_arith", re.compile(r"by\s*\(\s*nonlinear_arith\s*\)")),
]


def scan_assumptions(text):
    """mechanical scan of the assembled file: every trusted construct with the line that follows it
    (the signature it applies to), whitespace-normalised."""
    lines = text.split("\n")
    found = []
    for i, ln in enumerate(lines):
        code = ln.split("//")[0]
        for name, pat in ASSUME_PATTERNS[:8]:
            if pat.search(code):
                # signature = next non-attribute, non-empty line (or this one for inline constructs)
                sig = code.strip()
                if name in ("external_body", "external_type_specification", "external"):
                    j = i + 1
                    while j < len(lines) and (not lines[j].strip() or lines[j].strip().startswith("#[")):
                        j += 1
                    if j < len(lines):
                        # the whole assumed contract: signature + requires/ensures up to the body / terminator
                        acc = []
                        while j < len(lines):
                            lj = lines[j].split("//")[0]
                            acc.append(lj.strip())
                            if "{" in lj or lj.strip().endswith(";"):
                                break
                            j += 1
                        sig = " ".join(acc)
                sig = re.sub(r"\s+", " ", sig)
                sig = sig.split("{")[0].strip()
                found.append("%s: %s" % (name, sig))
    return found


def run_verus(path, rlimit=30, extra=None, timeout=600):
    cmd = [VERUS, path, "--output-json", "--time", "--multiple-errors", "5", "--triggers-mode", "silent",
           "--rlimit", str(rlimit), "--num-threads", "8"] + (extra or [])
    t0 = time.time()
    try:
        p = subprocess.run(cmd, stdout=subprocess.PIPE, stderr=subprocess.PIPE, text=True, timeout=timeout,
                           cwd=os.path.dirname(path))
        out, err, rc = p.stdout, p.stderr, p.returncode
    except subprocess.TimeoutExpired as e:
        return {"status": "timeout", "cmd": " ".join(cmd), "wall_s": time.time() - t0, "stderr": str(e), "functions": {}}
    wall = time.time() - t0
    res = {"cmd": " ".join(cmd), "wall_s": wall, "stderr": err, "rc": rc, "functions": {}, "status": "ok"}
    try:
        j = json.loads(out[out.index("{"):])
    except Exception:
        res["status"] = "no-json"
        return res
    vr = j.get("verification-results", {})
    res["verified"] = vr.get("verified")
    res["errors"] = vr.get("errors")
    res["success"] = vr.get("success")
    if vr.get("encountered-vir-error") or "verified" not in vr:
        res["status"] = "front-end-error"
    smt = j.get("times-ms", {}).get("smt", {})
    res["smt_ms"] = smt.get("total")
    res["total_ms"] = j.get("times-ms", {}).get("total")
    res["verus_version"] = j.get("verus", {}).get("version")
    for mod in smt.get("smt-run-module-times", []):
        for fb in mod.get("function-breakdown", []):
            name = fb["function"].split("::", 1)[1] if "::" in fb["function"] else fb["function"]
            prev = res["functions"].get(name)
            ok = fb["success"] and (prev["success"] if prev else True)
            res["functions"][name] = {"success": ok, "mode": fb.get("mode:"),
                                      "time_us": fb.get("time-micros", 0) + (prev["time_us"] if prev else 0),
                                      "rlimit": fb.get("rlimit", 0) + (prev["rlimit"] if prev else 0)}
    if res["status"] == "ok" and not res["functions"] and (res.get("verified") or 0) == 0 and rc != 0:
        res["status"] = "front-end-error"
    return res


_ERR_RE = re.compile(r"^(error|warning)(\[[A-Z0-9]+\])?: (.*)$")
_LOC_RE = re.compile(r"^\s*--> (.*?):(\d+):(\d+)")


def parse_diagnostics(stderr):
    """-> list of {level, msg, line, block} from rustc-style diagnostics."""
    diags = []
    cur = None
    for ln in stderr.split("\n"):
        m = _ERR_RE.match(ln)
        if m:
            cur = {"level": m.group(1), "msg": m.group(3), "line": None, "block": [ln]}
            diags.append(cur)
            continue
        if cur is not None:
            cur["block"].append(ln)
            m2 = _LOC_RE.match(ln)
            if m2 and cur["line"] is None:
                cur["line"] = int(m2.group(2))
    for d in diags:
        d["block"] = "\n".join(d["block"]).rstrip()
    return diags


PROOF_FAILURE_MSGS = ("postcondition not satisfied", "bitvector assertion not satisfied", "bitvector ensures not satisfied",
                      "requires not satisfied", "assertion not satisfied", "nonlinear", "expression simplifies to", "precondition not satisfied", "assertion failed",
                      "invariant not satisfied", "possible arithmetic underflow/overflow", "possible division by zero",
                      "decreases not satisfied", "could not prove termination", "bit shift", "unreachable",
                      "possible bit shift", "loop invariant", "recommendation not met", "index out of bounds",
                      "cannot show invariant", "failed this", "may be out of bounds")
RESOURCE_MSGS = ("Resource limit (rlimit) exceeded", "rlimit", "timed out", "canceled")
