#!/bin/bash
# mut.sh <repo-rel-file> <python-regex-from> <to> <property> [extra check args]: apply ONE textual edit to /repo (first match),
# run the property's check without evidence, undo.  Development aid for breaking-edit suites; never leaves /repo modified.
f=$1; from=$2; to=$3; p=$4; shift 4
R=${MUT_REPO:-/repo}   # MUT_REPO=<scratch worktree> to leave /repo alone (units that #[path]-include real files always read /repo)
cd $R && git diff --quiet || { echo "$R not clean"; exit 3; }
python3 - "$R/$f" "$from" "$to" <<'PY' || { git -C $R checkout -- .; exit 3; }
import re,sys
f,a,b=sys.argv[1:4]
s=open(f).read()
n,c=re.subn(a,b,s,count=1,flags=re.S)
if c!=1: print("mut: pattern not found"); sys.exit(1)
open(f,'w').write(n)
PY
git -C $R diff --stat | tail -1
cd /verif && VERIF_REPO=$R ./check $p --no-evidence "$@" 2>&1 | grep -E 'VIOLATION|UNDECIDED|^OK|failed obligation|KNOWN' | cut -c1-400; 
git -C $R checkout -- .
