#![allow(dead_code, unused_macros, unused_variables)]
extern crate alloc;
use std::cmp::Ordering;
macro_rules! location { () => { () }; }
#[derive(Debug)]
pub enum Error { Internal { message: String, location: () } }
pub type Result<T> = std::result::Result<T, Error>;

// shim of lance_table::rowids::{RowIdSequence, read_row_ids, write_row_ids} : a plain list of ids,
// "serialised" as 8 LE bytes per id (assumed contract: read(write(s)) == s)
#[derive(Clone, PartialEq, Debug)]
pub struct RowIdSequence(pub Vec<u64>);
impl RowIdSequence {
    pub fn len(&self) -> u64 { self.0.len() as u64 }
    pub fn iter(&self) -> impl Iterator<Item = u64> + '_ { self.0.iter().copied() }
}
impl From<std::ops::Range<u64>> for RowIdSequence { fn from(r: std::ops::Range<u64>) -> Self { let mut v = Vec::new(); let mut x = r.start; while x < r.end { v.push(x); x += 1; } Self(v) } }
impl From<&[u64]> for RowIdSequence { fn from(s: &[u64]) -> Self { Self(s.to_vec()) } }
// side-table model of the serialiser: the bytes are a handle; assumed contract read(write(s)) == s
static mut TABLE: [Option<(usize, [u64; 4])>; 4] = [None; 4];
static mut NEXT: usize = 0;
pub fn write_row_ids(s: &RowIdSequence) -> Vec<u8> {
    unsafe {
        let h = NEXT; NEXT += 1;
        let mut a = [0u64; 4]; let mut k = 0; while k < s.0.len() { a[k] = s.0[k]; k += 1; }
        TABLE[h] = Some((s.0.len(), a));
        vec![h as u8]
    }
}
pub fn read_row_ids(d: &[u8]) -> Result<RowIdSequence> {
    unsafe {
        let (n, a) = TABLE[d[0] as usize].unwrap();
        let mut v = Vec::new(); let mut k = 0; while k < n { v.push(a[k]); k += 1; }
        Ok(RowIdSequence(v))
    }
}
pub struct ExternalFile;
pub enum RowIdMeta { Inline(Vec<u8>), External(ExternalFile) }
pub struct Fragment { pub id: u64, pub physical_rows: Option<usize>, pub row_id_meta: Option<RowIdMeta> }
pub struct Transaction;

include!("extracted.rs");

#[cfg(kani)]
mod proofs {
    use super::*;
    fn ids_of(f: &Fragment) -> Vec<u64> { match &f.row_id_meta { Some(RowIdMeta::Inline(d)) => read_row_ids(d).unwrap().0, _ => Vec::new() } }

    fn fmt_stub(_a: std::fmt::Arguments<'_>) -> String { String::new() }
    #[kani::proof]
    #[kani::unwind(12)]
    #[kani::stub(alloc::fmt::format, fmt_stub)]
    fn assign_two_fragments() {
        let next0: u64 = kani::any();
        kani::assume(next0 < u64::MAX - 16);
        // fragment 0: new fragment with r0 <= 2 rows; fragment 1: r1 <= 2 rows, e1 <= r1 existing ids (all below next0)
        let r0: usize = 1;
        let r1: usize = 2;
        let e1: usize = 1;
        let a: u64 = kani::any(); let b: u64 = kani::any();
        kani::assume(a < next0 && b < next0 && a != b);
        let existing: Vec<u64> = if e1 == 0 { vec![] } else if e1 == 1 { vec![a] } else { vec![a, b] };
        let has_meta1: bool = true;
        let mut frags = vec![
            Fragment { id: 0, physical_rows: Some(r0), row_id_meta: None },
            Fragment { id: 1, physical_rows: Some(r1), row_id_meta: if has_meta1 { Some(RowIdMeta::Inline(write_row_ids(&RowIdSequence(existing.clone())))) } else { None } },
        ];
        let mut next = next0;
        let res = Transaction::assign_row_ids(&mut next, &mut frags);
        let e1_eff = if has_meta1 { e1 } else { 0 };
        if e1_eff > r1 {
            assert!(res.is_err());
        } else {
            assert!(res.is_ok());
            let created = (r0 + (r1 - e1_eff)) as u64;
            assert!(next == next0 + created);                       // high-water mark moves by exactly the ids created
            let i0 = ids_of(&frags[0]); let i1 = ids_of(&frags[1]);
            assert!(i0.len() == r0 && i1.len() == r1);               // one id per row
            // fragment 0 got [next0, next0+r0)
            let mut k = 0; while k < r0 { assert!(i0[k] == next0 + k as u64); k += 1; }
            // fragment 1 keeps its existing ids as a prefix, then fresh ones from [next0+r0, next)
            let mut k = 0; while k < e1_eff { assert!(i1[k] == existing[k]); k += 1; }
            let mut k = e1_eff; while k < r1 { assert!(i1[k] == next0 + r0 as u64 + (k - e1_eff) as u64); k += 1; }
        }
        kani::cover!(res.is_ok() && next > next0);
    }
}
