// harness for CleanupTask::process_manifest (shims: see kani/cleanup/src/lib.rs). CBMC: > 30 min / out of memory at 24-40 GB.
    /// C08: every file a manifest names -- data files, its deletion file, its transaction file, its indices -- is
    /// recorded as REFERENCED when the version is retained (working set) and as VERIFIED (and only verified) when it is
    /// being removed.  Together with `never_delete_referenced`: no file of a retained version is ever selected for deletion.
    #[kani::proof]
    #[kani::unwind(16)]
    fn files_of_a_manifest_are_recorded() {
        let ds = DatasetShim { base: any_path() };
        let task = CleanupTask { dataset: &ds, policy: no_policy() };
        let nfiles: usize = kani::any(); kani::assume(nfiles <= 2);
        let names: [u8; 2] = kani::any();
        let del = if kani::any() { Some(DeletionFile { file_type: if kani::any() { DeletionFileType::Array } else { DeletionFileType::Bitmap }, key: kani::any::<u8>() & 3 }) } else { None };
        let frag = Fragment { id: kani::any(), files: FileList { items: [DataFile { path: Name(names[0] & 3) }, DataFile { path: Name(names[1] & 3) }], n: nfiles }, deletion_file: del };
        let nfr: usize = kani::any(); kani::assume(nfr <= 1);
        let tx = if kani::any() { Some(Name(kani::any::<u8>() & 3)) } else { None };
        let m = Manifest { version: kani::any(), ts: kani::any(), fragments: FragList { items: [frag], n: nfr }, transaction_file: tx };
        let nidx: usize = kani::any(); kani::assume(nidx <= 2);
        let u: [u8; 2] = kani::any();
        let idx = Vec { items: [IndexMetadata { uuid: Uuid(u[0] & 3) }, IndexMetadata { uuid: Uuid(u[1] & 3) }], n: nidx };
        let mut insp = CleanupInspection { referenced_files: empty_ref(), verified_files: empty_ref() };
        let in_working_set: bool = kani::any();
        let r = task.process_manifest(&m, &idx, in_working_set, &mut MutexGuard(&mut insp));
        assert!(r.is_ok());
        let (hit, miss) = if in_working_set { (&insp.referenced_files, &insp.verified_files) } else { (&insp.verified_files, &insp.referenced_files) };
        for i in 0..2 { if nfr == 1 && i < nfiles {
            let p = Path { dir: Dir::Data, ext: Ext::Lance, key: names[i] & 3 };
            assert!(hit.data_paths.contains(&p), "a data file of the manifest is not recorded");
        } }
        if let (1, Some(d)) = (nfr, del) {
            let p = Path { dir: Dir::Deletions, ext: if d.file_type == DeletionFileType::Array { Ext::Arrow } else { Ext::Bin }, key: d.key & 3 };
            assert!(hit.delete_paths.contains(&p), "the deletion file of a fragment is not recorded");
        }
        if let Some(t) = tx { assert!(hit.tx_paths.contains(&Path { dir: Dir::Transactions, ext: Ext::Txn, key: t.0 & 3 }), "the transaction file is not recorded"); }
        for i in 0..2 { if i < nidx { assert!(hit.index_uuids.contains_key(u[i]), "an index of the manifest is not recorded"); } }
        assert!(miss.data_paths.n == 0 && miss.delete_paths.n == 0 && miss.tx_paths.n == 0 && miss.index_uuids.n == 0,
                "a removed version's files are recorded as referenced (or a retained version's only as verified)");
        kani::cover!(in_working_set && nfr == 1 && nfiles == 2 && del.is_some() && tx.is_some() && nidx == 2);
        kani::cover!(!in_working_set && nfr == 1);
    }

