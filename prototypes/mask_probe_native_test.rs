use lance_core::utils::mask::{RowIdMask, RowIdTreeMap};

fn sel(m: &RowIdMask) -> Vec<u64> { (0..8).filter(|x| m.selected(*x)).collect() }

#[test]
fn probe_not_all_rows() {
    let m = RowIdMask::all_rows();
    let n = !m.clone();
    println!("all={:?} not(all)={:?}", sel(&m), sel(&n));
}
#[test]
fn probe_not_both() {
    let m = RowIdMask::from_allowed(RowIdTreeMap::from_iter(&[1u64, 2, 3])).also_block(RowIdTreeMap::from_iter(&[2u64]));
    let n = !m.clone();
    println!("m={:?} not(m)={:?}", sel(&m), sel(&n));
}
#[test]
fn probe_or_all_block() {
    let a = RowIdMask::all_rows();
    let b = RowIdMask::from_block(RowIdTreeMap::from_iter(&[2u64]));
    println!("all|block={:?} block|all={:?}", sel(&(a.clone() | b.clone())), sel(&(b | a)));
}
#[test]
fn probe_insert_empty_range() {
    let mut t = RowIdTreeMap::new();
    let c = t.insert_range(0..0);
    println!("insert_range(0..0) count={} contains0={}", c, t.contains(0));
    let mut t = RowIdTreeMap::new();
    let c = t.insert_range(5..5);
    println!("insert_range(5..5) count={} is_empty={} len={:?}", c, t.is_empty(), t.len());
}
