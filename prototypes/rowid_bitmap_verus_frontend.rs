use vstd::prelude::*;
verus! {
pub assume_specification [usize::div_ceil] (a: usize, b: usize) -> (r: usize)
  requires b != 0
  ensures r as int == (a as int + b as int - 1) / (b as int);
pub struct Bitmap {
    pub data: Vec<u8>,
    pub len: usize,
}

impl Bitmap {
    pub fn new_empty(len: usize) -> Self {
        let data = vec![0; len.div_ceil(8)];
        Self { data, len }
    }

    pub fn new_full(len: usize) -> Self {
        let mut data = vec![0xff; len.div_ceil(8)];
        // Zero past the end of len
        let remainder = len % 8;
        if remainder != 0 {
            let last_byte = data.last_mut().unwrap();
            let bits_to_clear = 8 - remainder;
            for offset_from_end in 0..bits_to_clear {
                let i = 7 - offset_from_end;
                *last_byte &= !(1 << i);
            }
        }
        Self { data, len }
    }

    pub fn set(&mut self, i: usize) 
        requires i / 8 < old(self).data.len()
    {
        self.data[i / 8] |= 1 << (i % 8);
    }

    pub fn clear(&mut self, i: usize) 
        requires i / 8 < old(self).data.len()
    {
        self.data[i / 8] &= !(1 << (i % 8));
    }

    pub fn get(&self, i: usize) -> bool 
        requires i / 8 < self.data.len()
    {
        self.data[i / 8] & (1 << (i % 8)) != 0
    }
}
}
fn main() {}
