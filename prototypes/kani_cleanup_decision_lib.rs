#![allow(dead_code, unused_macros, unused_variables)]
// ---------------- shim context (abstract path domain) ----------------
macro_rules! info { ($($t:tt)*) => {}; }
pub const TRACE_FILE_AUDIT: &str = "";
#[derive(Debug)] pub struct Error;
pub type Result<T> = std::result::Result<T, Error>;

#[derive(Clone, Copy, PartialEq, Eq)]
pub enum Dir { VersionsTmp, Versions, Indices, IndicesNoUuid, Data, Deletions, Transactions, Other }
#[derive(Clone, Copy, PartialEq, Eq)]
pub enum Ext { Lance, Manifest, Arrow, Bin, Txn, Other, None }
#[derive(Clone, Copy, PartialEq, Eq)]
pub struct Path { pub dir: Dir, pub ext: Ext, pub key: u8 }
pub struct PStr(Path);
impl PStr {
    pub fn starts_with(&self, lit: &str) -> bool {
        if lit == "_versions/.tmp" { self.0.dir == Dir::VersionsTmp }
        else if lit == "_indices" { self.0.dir == Dir::Indices || self.0.dir == Dir::IndicesNoUuid }
        else if lit == "data" { self.0.dir == Dir::Data }
        else if lit == "_deletions" { self.0.dir == Dir::Deletions }
        else if lit == "_transactions" { self.0.dir == Dir::Transactions }
        else { panic!("shim: unknown prefix literal") }
    }
}
const UUIDS: [&str; 4] = ["u0", "u1", "u2", "u3"];
pub struct Part(u8);
impl Part { pub fn as_ref(&self) -> &'static str { UUIDS[(self.0 & 3) as usize] } }
pub struct Parts(Path);
impl Parts {
    pub fn nth(&self, n: usize) -> Option<Part> {
        assert!(n == 1);
        if self.0.dir == Dir::Indices { Some(Part(self.0.key)) } else { None }
    }
}
impl Path {
    pub fn as_ref(&self) -> PStr { PStr(*self) }
    pub fn parts(&self) -> Parts { Parts(*self) }
    pub fn extension(&self) -> Option<&'static str> {
        match self.ext { Ext::Lance => Some("lance"), Ext::Manifest => Some("manifest"), Ext::Arrow => Some("arrow"),
            Ext::Bin => Some("bin"), Ext::Txn => Some("txn"), Ext::Other => Some("xyz"), Ext::None => None }
    }
}
pub fn remove_prefix(path: &Path, _prefix: &Path) -> Path { *path }
pub struct PathSet { pub items: [Path; 2], pub n: u8 }
impl PathSet { pub fn contains(&self, p: &Path) -> bool { (self.n >= 1 && self.items[0] == *p) || (self.n >= 2 && self.items[1] == *p) } }
pub struct StrSet { pub items: [u8; 2], pub n: u8 }
impl StrSet { pub fn contains(&self, s: &str) -> bool { (self.n >= 1 && UUIDS[(self.items[0] & 3) as usize] == s) || (self.n >= 2 && UUIDS[(self.items[1] & 3) as usize] == s) } }
pub struct ReferencedFiles { pub data_paths: PathSet, pub delete_paths: PathSet, pub tx_paths: PathSet, pub index_uuids: StrSet }
pub struct CleanupInspection { pub referenced_files: ReferencedFiles, pub verified_files: ReferencedFiles }
pub struct DatasetShim { pub base: Path }
pub struct CleanupTask { pub dataset: DatasetShim }

include!("extracted.rs");

#[cfg(kani)]
mod proofs {
    use super::*;
    fn any_dir() -> Dir { match kani::any::<u8>() % 8 { 0 => Dir::VersionsTmp, 1 => Dir::Versions, 2 => Dir::Indices, 3 => Dir::IndicesNoUuid, 4 => Dir::Data, 5 => Dir::Deletions, 6 => Dir::Transactions, _ => Dir::Other } }
    fn any_ext() -> Ext { match kani::any::<u8>() % 7 { 0 => Ext::Lance, 1 => Ext::Manifest, 2 => Ext::Arrow, 3 => Ext::Bin, 4 => Ext::Txn, 5 => Ext::Other, _ => Ext::None } }
    fn any_path() -> Path { Path { dir: any_dir(), ext: any_ext(), key: kani::any::<u8>() & 3 } }
    fn any_pset() -> PathSet { PathSet { items: [any_path(), any_path()], n: kani::any::<u8>() % 3 } }
    fn any_sset() -> StrSet { StrSet { items: [kani::any::<u8>() & 3, kani::any::<u8>() & 3], n: kani::any::<u8>() % 3 } }
    fn any_ref() -> ReferencedFiles { ReferencedFiles { data_paths: any_pset(), delete_paths: any_pset(), tx_paths: any_pset(), index_uuids: any_sset() } }

    #[kani::proof]
    #[kani::unwind(20)]
    fn never_delete_referenced() {
        let task = CleanupTask { dataset: DatasetShim { base: any_path() } };
        let insp = CleanupInspection { referenced_files: any_ref(), verified_files: any_ref() };
        let p = any_path();
        let mip: bool = kani::any();
        let r = task.path_if_not_referenced(p, mip, &insp);
        match r {
            Ok(Some(q)) => {
                assert!(q == p);
                // (i) never a referenced file
                assert!(!insp.referenced_files.data_paths.contains(&p) || !(p.dir == Dir::Data && p.ext == Ext::Lance));
                assert!(!insp.referenced_files.delete_paths.contains(&p) || !(p.dir == Dir::Deletions));
                assert!(!insp.referenced_files.tx_paths.contains(&p) || !(p.dir == Dir::Transactions));
                if p.dir == Dir::Indices { assert!(!insp.referenced_files.index_uuids.contains(UUIDS[(p.key & 3) as usize])); }
                // (ii) in-progress window: only verified files
                if mip {
                    assert!(p.dir != Dir::VersionsTmp);
                    let verified = (p.dir == Dir::Indices && insp.verified_files.index_uuids.contains(UUIDS[(p.key & 3) as usize]))
                        || (p.dir == Dir::Data && insp.verified_files.data_paths.contains(&p))
                        || (p.dir == Dir::Deletions && insp.verified_files.delete_paths.contains(&p))
                        || (p.dir == Dir::Transactions && insp.verified_files.tx_paths.contains(&p));
                    assert!(verified);
                }
                // (iii) manifests are never returned from here
                assert!(p.ext != Ext::Manifest || p.dir == Dir::VersionsTmp || p.dir == Dir::Indices);
            }
            Ok(None) => {}
            Err(_) => assert!(false),
        }
        kani::cover!(matches!(r, Ok(Some(_))));
    }
}
