#![allow(dead_code)]
#[path = "/repo/rust/lance-encoding/src/utils/bytepack.rs"]
pub mod bytepack;

pub mod ff {
    use std::collections::HashMap;
    use std::sync::Arc;
    // shims
    pub struct Fragment { pub deletion_file: Option<()>, pub row_id_meta: Option<()> }
    pub struct Manifest {
        pub fragments: Arc<Vec<Fragment>>,
        pub config: MapShim,
        pub base_paths: MapShim,
        pub reader_feature_flags: u64,
        pub writer_feature_flags: u64,
    }
    pub struct MapShim { pub n: usize }
    impl MapShim { pub fn is_empty(&self) -> bool { self.n == 0 } }
    #[derive(Debug)]
    pub enum Error { InvalidInput }
    impl Error { pub fn invalid_input(_m: &str, _l: ()) -> Self { Self::InvalidInput } }
    pub type Result<T> = std::result::Result<T, Error>;
    macro_rules! location { () => { () } }
    include!("ff_extracted.rs");
}

#[cfg(kani)]
mod proofs {
    use super::bytepack::*;
    use super::ff::*;
    use std::sync::Arc;
    use std::collections::HashMap;

    #[kani::proof]
    #[kani::unwind(20)]
    fn bytepack_roundtrip2() {
        let max: u64 = kani::any();
        let a: u64 = kani::any();
        let b: u64 = kani::any();
        kani::assume(a <= max && b <= max && max > 0);
        let mut enc = BytepackedIntegerEncoder::with_capacity(2, max);
        unsafe { enc.append(a); enc.append(b); }
        let width = if max <= 0xff { 1 } else if max <= 0xffff { 2 } else if max <= 0xffff_ffff { 4 } else { 8 };
        let data = enc.into_data();
        assert!(data.len() == 2 * width);
        let mut it = ByteUnpacker::new(data, width);
        assert!(it.next() == Some(a));
        assert!(it.next() == Some(b));
        assert!(it.next() == None);
    }

    #[kani::proof]
    #[kani::unwind(4)]
    fn flags_reflect_contents() {
        let d0: bool = kani::any(); let r0: bool = kani::any();
        let d1: bool = kani::any(); let r1: bool = kani::any();
        let n: u8 = kani::any(); kani::assume(n <= 2);
        let mut frags = Vec::new();
        if n >= 1 { frags.push(Fragment { deletion_file: if d0 {Some(())} else {None}, row_id_meta: if r0 {Some(())} else {None} }); }
        if n >= 2 { frags.push(Fragment { deletion_file: if d1 {Some(())} else {None}, row_id_meta: if r1 {Some(())} else {None} }); }
        let mut m = Manifest { fragments: Arc::new(frags), config: MapShim { n: kani::any() }, base_paths: MapShim { n: kani::any() },
            reader_feature_flags: kani::any(), writer_feature_flags: kani::any() };
        let stable: bool = kani::any(); let dis: bool = kani::any();
        let r = apply_feature_flags(&mut m, stable, dis);
        let any_del = (n >= 1 && d0) || (n >= 2 && d1);
        let any_rid = (n >= 1 && r0) || (n >= 2 && r1);
        let all_rid = (n < 1 || r0) && (n < 2 || r1);
        if (any_rid || stable) && !all_rid { assert!(r.is_err()); } else {
            assert!(r.is_ok());
            let cfg = m.config.n != 0; let bp = m.base_paths.n != 0;
            let want_r = (if any_del {1} else {0}) | (if any_rid || stable {2} else {0}) | (if bp {16} else {0});
            let want_w = want_r | (if dis {32} else {0}) | (if cfg {8} else {0});
            assert!(m.reader_feature_flags == want_r);
            assert!(m.writer_feature_flags == want_w);
        }
    }
}
