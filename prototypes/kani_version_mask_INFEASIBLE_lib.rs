//! Kani unit `version_mask`: the REAL text of `RowDatasetVersionSequence::mask` (+ the two structs and
//! `RowDatasetVersionRun::{len,is_empty,version}`) from rust/lance-table/src/rowids/version.rs: deleting rows by
//! position from the per-row version column (what compaction does when it materialises deletions).
//! Shim: `U64Segment` only knows its length and remembers which local positions it was asked to mask.
#![allow(dead_code, unused_macros, unused_imports, clippy::all)]
#[derive(Debug)]
pub struct Error;
pub type Result<T> = std::result::Result<T, Error>;

#[derive(Clone, Debug, PartialEq)]
pub struct U64Segment { pub len: usize, pub masked: [u32; 3], pub nm: usize, pub calls: usize }
impl U64Segment {
    pub fn len(&self) -> usize { self.len }
    pub fn is_empty(&self) -> bool { self.len == 0 }
    pub fn mask(&mut self, positions: &[u32]) {
        self.calls += 1;
        for p in positions { assert!((*p as usize) < self.len + self.nm, "shim: local position outside the segment"); assert!(self.nm < 3); self.masked[self.nm] = *p; self.nm += 1; }
        self.len -= positions.len();
    }
}
include!("gen/version.rs");
include!("gen/version_fns.rs");

#[cfg(kani)]
mod proofs {
    use super::*;
    /// C17: after `mask(positions)` every surviving row keeps ITS OWN version: run i loses exactly the positions that
    /// fall inside it (translated to positions local to the run), runs keep their order and versions, runs that
    /// become empty disappear -- so the k-th surviving row's version is the version the k-th surviving row had.
    #[kani::proof]
    #[kani::unwind(6)]
    fn mask_removes_exactly_the_given_rows() {
        let nruns: usize = kani::any(); kani::assume(nruns >= 1 && nruns <= 2);
        let lens: [usize; 3] = kani::any(); let vers: [u64; 3] = kani::any();
        for i in 0..3 { kani::assume(lens[i] >= 1 && lens[i] <= 3); }
        let mk = |i: usize| RowDatasetVersionRun { span: U64Segment { len: lens[i], masked: [0; 3], nm: 0, calls: 0 }, version: vers[i] };
        let runs = match nruns { 1 => vec![mk(0)], _ => vec![mk(0), mk(1)] };
        let mut seq = RowDatasetVersionSequence { runs };
        let total: usize = (0..3).map(|i| if i < nruns { lens[i] } else { 0 }).sum();
        // sorted, distinct positions inside the sequence (a deletion vector iterates in increasing order)
        let np: usize = kani::any(); kani::assume(np <= 2);
        let pos: [u32; 3] = kani::any();
        for i in 0..3 { if i < np { kani::assume((pos[i] as usize) < total); if i > 0 { kani::assume(pos[i - 1] < pos[i]); } } }
        let r = seq.mask(pos.into_iter().take(np));
        assert!(r.is_ok());
        // oracle
        let mut start = 0usize; let mut out = 0usize;
        for i in 0..3 { if i < nruns {
            let mut cnt = 0usize;
            for k in 0..3 { if k < np && (pos[k] as usize) >= start && (pos[k] as usize) < start + lens[i] { cnt += 1; } }
            if cnt < lens[i] {
                assert!(out < seq.runs.len(), "a run with surviving rows disappeared");
                let run = &seq.runs[out];
                assert!(run.version == vers[i], "surviving rows changed their version");
                assert!(run.span.len == lens[i] - cnt, "a run lost rows that were not deleted in it (or kept deleted ones)");
                assert!(run.span.nm == cnt);
                let mut j = 0usize;
                for k in 0..3 { if k < np && (pos[k] as usize) >= start && (pos[k] as usize) < start + lens[i] {
                    assert!(run.span.masked[j] as usize == pos[k] as usize - start, "wrong local position deleted inside the run"); j += 1; } }
                out += 1;
            }
            start += lens[i];
        } }
        assert!(out == seq.runs.len(), "an empty run was left behind");
        kani::cover!(nruns == 2 && np == 2 && seq.runs.len() == 1);
        kani::cover!(nruns == 2 && np == 2 && seq.runs.len() == 2);
    }
}
