use vstd::prelude::*;
use vstd::std_specs::ops::*;
verus! {

#[verifier::external_body]
pub struct RowIdTreeMap { _p: core::marker::PhantomData<u64> }
impl View for RowIdTreeMap { type V = Set<u64>; uninterp spec fn view(&self) -> Set<u64>; }

impl BitOrSpecImpl<RowIdTreeMap> for RowIdTreeMap {
    open spec fn obeys_bitor_spec() -> bool { false }
    open spec fn bitor_req(self, rhs: RowIdTreeMap) -> bool { true }
    open spec fn bitor_spec(self, rhs: RowIdTreeMap) -> RowIdTreeMap { arbitrary() }
}
impl std::ops::BitOr<RowIdTreeMap> for RowIdTreeMap {
    type Output = RowIdTreeMap;
    #[verifier::external_body]
    fn bitor(self, rhs: RowIdTreeMap) -> (r: RowIdTreeMap) ensures r@ == self@.union(rhs@) { unimplemented!() }
}
impl BitAndSpecImpl<RowIdTreeMap> for RowIdTreeMap {
    open spec fn obeys_bitand_spec() -> bool { false }
    open spec fn bitand_req(self, rhs: RowIdTreeMap) -> bool { true }
    open spec fn bitand_spec(self, rhs: RowIdTreeMap) -> RowIdTreeMap { arbitrary() }
}
impl std::ops::BitAnd<RowIdTreeMap> for RowIdTreeMap {
    type Output = RowIdTreeMap;
    #[verifier::external_body]
    fn bitand(self, rhs: RowIdTreeMap) -> (r: RowIdTreeMap) ensures r@ == self@.intersect(rhs@) { unimplemented!() }
}


impl RowIdTreeMap {
    #[verifier::external_body]
    pub fn contains(&self, value: u64) -> (r: bool) ensures r == self@.contains(value) { unimplemented!() }
    #[verifier::external_body]
    pub fn new() -> (r: Self) ensures r@ == Set::<u64>::empty() { unimplemented!() }
    #[verifier::external_body]
    pub fn is_empty(&self) -> (r: bool) ensures r ==> self@ == Set::<u64>::empty() { unimplemented!() }
}
impl SubAssignSpecImpl<&RowIdTreeMap> for RowIdTreeMap {
    open spec fn obeys_sub_assign_spec() -> bool { false }
    open spec fn sub_assign_req(&self, rhs: &RowIdTreeMap) -> bool { true }
    open spec fn sub_assign_spec(&self, rhs: &RowIdTreeMap) -> &RowIdTreeMap { arbitrary() }
}
impl std::ops::SubAssign<&RowIdTreeMap> for RowIdTreeMap {
    #[verifier::external_body]
    fn sub_assign(&mut self, rhs: &RowIdTreeMap) ensures final(self)@ == old(self)@.difference(rhs@) { unimplemented!() }
}
pub struct RowIdMask {
    pub allow_list: Option<RowIdTreeMap>,
    pub block_list: Option<RowIdTreeMap>,
}
impl RowIdMask {
    pub open spec fn sel(&self, x: u64) -> bool {
        (self.allow_list is None || self.allow_list->0@.contains(x)) &&
        (self.block_list is None || !self.block_list->0@.contains(x))
    }
}
impl BitAndSpecImpl<RowIdMask> for RowIdMask {
    open spec fn obeys_bitand_spec() -> bool { false }
    open spec fn bitand_req(self, rhs: RowIdMask) -> bool { true }
    open spec fn bitand_spec(self, rhs: RowIdMask) -> RowIdMask { arbitrary() }
}
impl BitOrSpecImpl<RowIdMask> for RowIdMask {
    open spec fn obeys_bitor_spec() -> bool { false }
    open spec fn bitor_req(self, rhs: RowIdMask) -> bool { true }
    open spec fn bitor_spec(self, rhs: RowIdMask) -> RowIdMask { arbitrary() }
}
impl NotSpecImpl for RowIdMask {
    open spec fn obeys_not_spec() -> bool { false }
    open spec fn not_req(self) -> bool { true }
    open spec fn not_spec(self) -> RowIdMask { arbitrary() }
}
impl RowIdMask {
    pub fn normalize(self) -> (r: Self)
        ensures forall|x: u64| r.sel(x) == self.sel(x), !(r.allow_list is Some && r.block_list is Some)
    {
        if let Self {
            allow_list: Some(mut allow_list),
            block_list: Some(block_list),
        } = self
        {
            allow_list -= &block_list;
            Self {
                allow_list: Some(allow_list),
                block_list: None,
            }
        } else {
            self
        }
    }
    pub fn selected(&self, row_id: u64) -> (r: bool)
        ensures r == self.sel(row_id)
    {
        match (&self.allow_list, &self.block_list) {
            (None, None) => true,
            (Some(allow_list), None) => allow_list.contains(row_id),
            (None, Some(block_list)) => !block_list.contains(row_id),
            (Some(allow_list), Some(block_list)) => {
                allow_list.contains(row_id) && !block_list.contains(row_id)
            }
        }
    }
    pub fn also_block(self, block_list: RowIdTreeMap) -> (r: Self)
        ensures forall|x: u64| r.sel(x) == (self.sel(x) && !block_list@.contains(x))
    {
        if block_list.is_empty() {
            return self;
        }
        if let Some(existing) = self.block_list {
            Self {
                block_list: Some(existing | block_list),
                allow_list: self.allow_list,
            }
        } else {
            Self {
                block_list: Some(block_list),
                allow_list: self.allow_list,
            }
        }
    }
}
impl std::ops::Not for RowIdMask {
    type Output = Self;

    fn not(self) -> (r: Self::Output)
        ensures forall|x: u64| r.sel(x) == !self.sel(x)
    {
        match (self.allow_list, self.block_list) {
            (None, None) => Self { allow_list: Some(RowIdTreeMap::new()), block_list: None },
            (Some(allow_list), None) => Self { allow_list: None, block_list: Some(allow_list) },
            (None, Some(block_list)) => Self { allow_list: Some(block_list), block_list: None },
            (Some(mut allow_list), Some(block_list)) => {
                allow_list -= &block_list;
                Self { allow_list: None, block_list: Some(allow_list) }
            }
        }
    }
}
impl std::ops::BitAnd for RowIdMask {
    type Output = Self;

    fn bitand(self, rhs: Self) -> (r: Self::Output)
        ensures forall|x: u64| r.sel(x) == (self.sel(x) && rhs.sel(x))
    {
        let block_list = match (self.block_list, rhs.block_list) {
            (None, None) => None,
            (Some(lhs), None) => Some(lhs),
            (None, Some(rhs)) => Some(rhs),
            (Some(lhs), Some(rhs)) => Some(lhs | rhs),
        };
        let allow_list = match (self.allow_list, rhs.allow_list) {
            (None, None) => None,
            (Some(lhs), None) => Some(lhs),
            (None, Some(rhs)) => Some(rhs),
            (Some(lhs), Some(rhs)) => Some(lhs & rhs),
        };
        Self {
            block_list,
            allow_list,
        }
    }
}
impl std::ops::BitOr for RowIdMask {
    type Output = Self;

    fn bitor(self, rhs: Self) -> (r: Self::Output)
        ensures forall|x: u64| r.sel(x) == (self.sel(x) || rhs.sel(x))
    {
        let this = self.normalize();
        let rhs = rhs.normalize();
        let block_list = if let Some(mut self_block_list) = this.block_list {
            match (&rhs.allow_list, rhs.block_list) {
                // If RHS is allow all, then our block list disappears
                (None, None) => None,
                // If RHS is allow list, remove allowed from our block list
                (Some(allow_list), None) => {
                    self_block_list -= allow_list;
                    Some(self_block_list)
                }
                // If RHS is block list, intersect
                (None, Some(block_list)) => Some(self_block_list & block_list),
                // We normalized to avoid this path
                (Some(_), Some(_)) => unreachable!(),
            }
        } else if let Some(mut rhs_block_list) = rhs.block_list {
            if let Some(allow_list) = &this.allow_list {
                rhs_block_list -= allow_list;
                Some(rhs_block_list)
            } else {
                // LHS allows all rows, so the RHS block list disappears
                None
            }
        } else {
            None
        };

        let allow_list = match (this.allow_list, rhs.allow_list) {
            (None, None) => None,
            // Remember that an allow list of None means "all rows" and
            // so "all rows" | "some rows" is always "all rows"
            (Some(_), None) => None,
            (None, Some(_)) => None,
            (Some(lhs), Some(rhs)) => Some(lhs | rhs),
        };
        Self {
            block_list,
            allow_list,
        }
    }
}
}
fn main() {}
