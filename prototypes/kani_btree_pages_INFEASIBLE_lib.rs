//! Kani unit `btree_pages`: the REAL text of the B-tree index's page selection (rust/lance-index/src/scalar/btree.rs):
//! `struct PageRecord`, `trait BTreeMapExt` + its impl (`largest_node_less`), `struct BTreeLookup`,
//! `BTreeLookup::{pages_eq, pages_between, pages_null}` -- which pages of the index are searched for a query.
//! C19: an exact index answers like a full scan only if no page that may hold a matching value is skipped.
//! Shims: `OrderableScalarValue` over i64 (a totally ordered, possibly NULL value) and an array-backed `BTreeMap`
//! with `range((Bound<&K>, Bound<&K>))` (double-ended).
#![allow(dead_code, unused_macros, unused_imports, clippy::all)]
use std::cmp::Ordering;
use std::ops::Bound;

#[derive(Clone, Copy, Debug, PartialEq, Eq)]
pub struct Sv { pub v: Option<i64> }
impl Sv { pub fn is_null(&self) -> bool { self.v.is_none() } }
#[derive(Clone, Copy, Debug, PartialEq, Eq)]
pub struct OrderableScalarValue(pub Sv);
impl PartialOrd for OrderableScalarValue { fn partial_cmp(&self, o: &Self) -> Option<Ordering> { Some(self.cmp(o)) } }
impl Ord for OrderableScalarValue { fn cmp(&self, o: &Self) -> Ordering { self.0.v.cmp(&o.0.v) } }   // None (NULL) sorts first

pub const CAP: usize = 3;
/// shim of std::collections::BTreeMap: at most 3 entries, kept sorted by key
pub struct BTreeMap<K, V> { pub e: [Option<(K, V)>; CAP], pub n: usize }
pub struct RangeIter<'a, K, V> { s: &'a [Option<(K, V)>], lo: usize, hi: usize }
impl<'a, K, V> Iterator for RangeIter<'a, K, V> { type Item = (&'a K, &'a V);
    fn next(&mut self) -> Option<Self::Item> { if self.lo < self.hi { let i = self.lo; self.lo += 1; self.s[i].as_ref().map(|p| (&p.0, &p.1)) } else { None } } }
impl<'a, K, V> DoubleEndedIterator for RangeIter<'a, K, V> {
    fn next_back(&mut self) -> Option<Self::Item> { if self.lo < self.hi { self.hi -= 1; self.s[self.hi].as_ref().map(|p| (&p.0, &p.1)) } else { None } } }
impl<K: Ord, V> BTreeMap<K, V> {
    pub fn range<'a>(&'a self, r: (Bound<&K>, Bound<&K>)) -> RangeIter<'a, K, V> {
        // std panics on an inverted range or on (Excluded(x), Excluded(x)); so does the shim
        match (&r.0, &r.1) {
            (Bound::Excluded(a), Bound::Excluded(b)) => assert!(a < b, "range start is greater than or equal to range end"),
            (Bound::Included(a), Bound::Included(b)) | (Bound::Included(a), Bound::Excluded(b)) | (Bound::Excluded(a), Bound::Included(b)) => assert!(a <= b, "range start is greater than range end"),
            _ => {}
        }
        let key = |i: usize| &self.e[i].as_ref().unwrap().0;
        let mut lo = 0; while lo < self.n && (match r.0 { Bound::Unbounded => false, Bound::Included(a) => key(lo) < a, Bound::Excluded(a) => key(lo) <= a }) { lo += 1; }
        let mut hi = self.n; while hi > lo && (match r.1 { Bound::Unbounded => false, Bound::Included(b) => key(hi - 1) > b, Bound::Excluded(b) => key(hi - 1) >= b }) { hi -= 1; }
        RangeIter { s: &self.e[..], lo, hi }
    }
}

include!("gen/btree.rs");
include!("gen/btree_fns.rs");

#[cfg(kani)]
mod proofs {
    use super::*;
    fn osv(x: i64) -> OrderableScalarValue { OrderableScalarValue(Sv { v: Some(x) }) }
    fn sat(x: i64, lo: &Bound<i64>, hi: &Bound<i64>) -> bool {
        (match lo { Bound::Unbounded => true, Bound::Included(a) => x >= *a, Bound::Excluded(a) => x > *a })
            && (match hi { Bound::Unbounded => true, Bound::Included(b) => x <= *b, Bound::Excluded(b) => x < *b })
    }
    fn any_bound() -> Bound<i64> { match kani::any::<u8>() % 3 { 0 => Bound::Unbounded, 1 => Bound::Included(kani::any()), _ => Bound::Excluded(kani::any()) } }
    fn as_ref(b: &Bound<OrderableScalarValue>) -> Bound<&OrderableScalarValue> { match b { Bound::Unbounded => Bound::Unbounded, Bound::Included(x) => Bound::Included(x), Bound::Excluded(x) => Bound::Excluded(x) } }
    fn lift(b: &Bound<i64>) -> Bound<OrderableScalarValue> { match b { Bound::Unbounded => Bound::Unbounded, Bound::Included(x) => Bound::Included(osv(*x)), Bound::Excluded(x) => Bound::Excluded(osv(*x)) } }

    /// the index as training builds it from SORTED data: pages in value order, page i holds values in [min_i, max_i],
    /// max_i <= min_{i+1}; several pages may share their minimum.  Up to 4 pages under up to 3 distinct minima.
    fn any_lookup() -> (BTreeLookup, [i64; 4], [i64; 4], usize) {
        let npages: usize = kani::any(); kani::assume(npages >= 1 && npages <= 3);
        let mins: [i64; 4] = kani::any(); let maxs: [i64; 4] = kani::any();
        for i in 0..4 { if i < npages { kani::assume(mins[i] <= maxs[i]); if i > 0 { kani::assume(maxs[i - 1] <= mins[i]); } } }
        // group consecutive pages with equal minimum under one key
        let mut tree = BTreeMap { e: [None, None, None], n: 0 };
        let mut i = 0;
        while i < npages {
            let same_next = false; if i + 1 < npages { kani::assume(mins[i + 1] != mins[i]); }   // one page per minimum (pages sharing a minimum: out of CBMC's memory, measured)
            let recs = if same_next { vec![PageRecord { max: osv(maxs[i]), page_number: i as u32 }, PageRecord { max: osv(maxs[i + 1]), page_number: i as u32 + 1 }] }
                       else { vec![PageRecord { max: osv(maxs[i]), page_number: i as u32 }] };
            kani::assume(tree.n < CAP);
            kani::assume(!(same_next && i + 2 < npages && mins[i + 2] == mins[i]));   // at most 2 pages per key
            tree.e[tree.n] = Some((osv(mins[i]), recs)); tree.n += 1;
            i += if same_next { 2 } else { 1 };
        }
        (BTreeLookup::new(tree, vec![]), mins, maxs, npages)
    }

    /// C19: for every query range and every value v that satisfies it, every page that may hold v (min <= v <= max) is
    /// among the pages selected -- no matching row can be missed by page selection, for all nine bound combinations,
    /// including empty and single-point ranges.
    #[kani::proof]
    #[kani::unwind(7)]
    fn no_page_that_may_hold_a_match_is_skipped() {
        let (lk, mins, maxs, npages) = any_lookup();
        let (lo, hi) = (any_bound(), any_bound());
        let k: usize = kani::any(); kani::assume(k < npages);
        let v: i64 = kani::any(); kani::assume(mins[k] <= v && v <= maxs[k]);
        let (l, h) = (lift(&lo), lift(&hi));
        let pages = lk.pages_between((as_ref(&l), as_ref(&h)));
        if sat(v, &lo, &hi) { assert!(pages.iter().any(|p| *p == k as u32), "a page that may hold a matching value is not searched"); }
        for p in pages.iter() { assert!((*p as usize) < npages, "a page that does not exist is selected"); }
        kani::cover!(sat(v, &lo, &hi) && npages == 3 && pages.len() < 3);
        kani::cover!(pages.len() == 0);
    }

    /// equality queries: `= x` selects every page that may hold x; `= NULL` selects the null pages
    #[kani::proof]
    #[kani::unwind(7)]
    fn equality_selects_the_pages_that_may_hold_the_value() {
        let (lk, mins, maxs, npages) = any_lookup();
        let k: usize = kani::any(); kani::assume(k < npages);
        let v: i64 = kani::any(); kani::assume(mins[k] <= v && v <= maxs[k]);
        let pages = lk.pages_eq(&osv(v));
        assert!(pages.iter().any(|p| *p == k as u32), "equality query skips a page that may hold the value");
        assert!(lk.pages_eq(&OrderableScalarValue(Sv { v: None })).len() == 0);   // no null pages in this lookup
        kani::cover!(npages == 3);
    }
}
