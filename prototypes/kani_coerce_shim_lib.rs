#![allow(dead_code, unused_imports, clippy::all)]
use std::sync::Arc;

// ---- shim of arrow / datafusion types named by safe_coerce_scalar ----
#[derive(Clone, Debug, PartialEq)]
pub enum TimeUnit { Second, Millisecond, Microsecond, Nanosecond }
#[derive(Clone, Debug, PartialEq)]
pub struct FieldRef;
#[derive(Clone, Debug, PartialEq)]
pub enum DataType {
    Null, Boolean, Int8, Int16, Int32, Int64, UInt8, UInt16, UInt32, UInt64,
    Float16, Float32, Float64, Utf8, LargeUtf8, Binary, LargeBinary, FixedSizeBinary(i32),
    Date32, Date64, Time32(TimeUnit), Time64(TimeUnit), Timestamp(TimeUnit, Option<Arc<str>>),
    List(FieldRef), LargeList(FieldRef), FixedSizeList(FieldRef, i32),
    Decimal128(u8, i8), Decimal256(u8, i8),
}
pub trait Array { fn as_list(&self) -> &ListArr; fn as_fixed_size_list(&self) -> &ListArr; }
#[derive(Clone, Debug, PartialEq)]
pub struct ListArr;
impl Array for ListArr { fn as_list(&self) -> &ListArr { self } fn as_fixed_size_list(&self) -> &ListArr { self } }
pub type ArrayRef = Arc<dyn Array>;
pub trait AsArray { fn as_list(&self) -> &ListArr; fn as_fixed_size_list(&self) -> &ListArr; }
impl AsArray for ArrayRef { fn as_list(&self) -> &ListArr { (**self).as_list() } fn as_fixed_size_list(&self) -> &ListArr { (**self).as_fixed_size_list() } }
pub fn cast(a: &ArrayRef, _ty: &DataType) -> Result<ArrayRef, ()> { Ok(a.clone()) }

#[derive(Clone, Debug, PartialEq)]
pub enum ScalarValue {
    Null, Boolean(Option<bool>),
    Int8(Option<i8>), Int16(Option<i16>), Int32(Option<i32>), Int64(Option<i64>),
    UInt8(Option<u8>), UInt16(Option<u16>), UInt32(Option<u32>), UInt64(Option<u64>),
    Float32(Option<f32>), Float64(Option<f64>),

    Utf8(Option<String>), LargeUtf8(Option<String>),
    Binary(Option<Vec<u8>>), LargeBinary(Option<Vec<u8>>), FixedSizeBinary(i32, Option<Vec<u8>>),
    List(Arc<ListArr>), LargeList(Arc<ListArr>), FixedSizeList(Arc<ListArr>),
    Date32(Option<i32>), Date64(Option<i64>),
    Time32Second(Option<i32>), Time32Millisecond(Option<i32>),
    Time64Microsecond(Option<i64>), Time64Nanosecond(Option<i64>),
    TimestampSecond(Option<i64>, Option<Arc<str>>), TimestampMillisecond(Option<i64>, Option<Arc<str>>),
    TimestampMicrosecond(Option<i64>, Option<Arc<str>>), TimestampNanosecond(Option<i64>, Option<Arc<str>>),
}

include!("extracted.rs");

#[cfg(kani)]
mod proofs {
    use super::*;
    #[kani::proof]
    fn i64_to_i8() {
        let v: i64 = kani::any();
        let r = safe_coerce_scalar(&ScalarValue::Int64(Some(v)), &DataType::Int8);
        match r {
            Some(ScalarValue::Int8(Some(x))) => assert!(x as i64 == v),
            None => assert!(v < i8::MIN as i64 || v > i8::MAX as i64),
            _ => assert!(false),
        }
    }
    #[kani::proof]
    fn ts_s_to_ns() {
        let v: i64 = kani::any();
        let r = safe_coerce_scalar(&ScalarValue::TimestampSecond(Some(v), None), &DataType::Timestamp(TimeUnit::Nanosecond, None));
        match r {
            Some(ScalarValue::TimestampNanosecond(Some(x), None)) => assert!(x as i128 == v as i128 * 1_000_000_000),
            None => assert!((v as i128 * 1_000_000_000) > i64::MAX as i128 || (v as i128 * 1_000_000_000) < i64::MIN as i128),
            _ => assert!(false),
        }
    }
}
