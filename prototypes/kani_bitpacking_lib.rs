#[cfg(kani)]
mod proofs {
    use lance_bitpacking::BitPacking;
    const FL_ORDER: [usize; 8] = [0, 4, 2, 6, 1, 5, 3, 7];
    fn index(row: usize, lane: usize) -> usize {
        let o = row / 8;
        let s = row % 8;
        (FL_ORDER[o] * 16) + (s * 128) + lane
    }
    #[kani::proof]
    #[kani::unwind(66)]
    fn u64_w37_lane5() {
        const W: usize = 37;
        const LANE: usize = 5;
        let mut input = [0u64; 1024];
        let mut row = 0;
        while row < 64 { input[index(row, LANE)] = kani::any(); row += 1; }
        let mut packed = [0u64; 16 * W];
        let mut out = [0u64; 1024];
        unsafe {
            u64::unchecked_pack(W, &input, &mut packed);
            u64::unchecked_unpack(W, &packed, &mut out);
        }
        let k: usize = kani::any();
        kani::assume(k < 1024);
        assert!(out[k] == input[k] & ((1u64 << W) - 1));
    }
}
