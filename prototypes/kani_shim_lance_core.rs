pub type Result<T> = std::result::Result<T, Error>;
pub type BoxedError = Box<dyn std::error::Error + Send + Sync + 'static>;
#[derive(Debug)]
pub enum Error { InvalidInput { source: BoxedError, location: snafu::Location } }
