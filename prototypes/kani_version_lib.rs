#![allow(dead_code)]
extern crate alloc;
#[path = "/repo/rust/lance-encoding/src/version.rs"]
pub mod version;

#[cfg(kani)]
mod proofs {
    use super::version::LanceFileVersion as V;
    use std::str::FromStr;
    fn fmt_stub(_args: std::fmt::Arguments<'_>) -> String { String::new() }
    #[kani::proof]
    #[kani::unwind(12)]
    #[kani::stub(alloc::fmt::format, fmt_stub)]
    fn display_parse_v2_1() {
        let v = V::V2_1;
        let s = v.to_string();
        let p = V::from_str(&s);
        assert!(matches!(p, Ok(V::V2_1)));
    }
    #[kani::proof]
    #[kani::stub(alloc::fmt::format, fmt_stub)]
    #[kani::unwind(4)]
    fn numbers_roundtrip() {
        let k: u8 = kani::any();
        kani::assume(k < 6);
        let v = match k { 0 => V::Legacy, 1 => V::V2_0, 2 => V::Stable, 3 => V::V2_1, 4 => V::Next, _ => V::V2_2 };
        let (a, b) = v.to_numbers();
        let r = V::try_from_major_minor(a, b);
        assert!(matches!(r, Ok(x) if x == v.resolve()));
    }
}
