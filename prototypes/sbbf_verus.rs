use vstd::prelude::*;
verus! {
#[derive(Debug, Copy, Clone)]
struct Block([u32; 8]);
impl Block {
    #[verifier::external_body]
    fn insert(&mut self, hash: u32) 
        ensures final(self).0[0] == old(self).0[0] | hash
    { unimplemented!() }
    #[verifier::external_body]
    fn check(&self, hash: u32) -> bool { unimplemented!() }
}
pub struct Sbbf {
    blocks: Vec<Block>,
}

impl Sbbf {
    pub closed spec fn nblocks(&self) -> int { self.blocks.len() as int }
    fn hash_to_block_index(&self, hash: u64) -> (r: usize) 
        requires 0 < self.blocks.len() < 0x1_0000_0000
        ensures r < self.blocks.len()
    {
        proof {
            assert(forall|h: u64| #[trigger] (h >> 32) < 0x1_0000_0000u64) by (bit_vector);
            let hi = (hash >> 32) as int; let n = self.blocks.len() as int;
            assert(hi * n < 0x1_0000_0000 * n) by (nonlinear_arith) requires 0 <= hi < 0x1_0000_0000, n > 0;
            assert(0x1_0000_0000 * n < 0x1_0000_0000 * 0x1_0000_0000) by (nonlinear_arith) requires n < 0x1_0000_0000;
            let p = (hi * n) as u64; let m = n as u64;
            assert(hi * n == (hi as u64) * (n as u64)) by (nonlinear_arith) requires 0 <= hi < 0x1_0000_0000, 0 < n < 0x1_0000_0000;
            assert(p < m * 0x1_0000_0000u64 && m < 0x1_0000_0000u64 ==> (p >> 32) < m) by (bit_vector);
        }
        (((hash >> 32).saturating_mul(self.blocks.len() as u64)) >> 32) as usize
    }
    pub fn insert_hash(&mut self, hash: u64) 
        requires 0 < old(self).nblocks() < 0x1_0000_0000
    {
        let block_index = self.hash_to_block_index(hash);
        self.blocks[block_index].insert(hash as u32)
    }
    pub fn check_hash(&self, hash: u64) -> bool 
        requires 0 < self.nblocks() < 0x1_0000_0000
    {
        let block_index = self.hash_to_block_index(hash);
        self.blocks[block_index].check(hash as u32)
    }
}
}
fn main() {}
