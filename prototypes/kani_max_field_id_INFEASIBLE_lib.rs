//! Kani unit `maxfrag`: the REAL text of `Manifest::update_max_fragment_id` and `Manifest::max_fragment_id`
//! (rust/lance-table/src/format/manifest.rs) against a two-field shim Manifest.
#![allow(dead_code, unused_macros, unused_imports, clippy::all)]
use std::sync::Arc;
/// array-backed stand-ins for Vec<i32> (DataFile::fields) and Vec<DataFile> (Fragment::files)
#[derive(Clone, Copy)]
pub struct Ids { pub items: [i32; 2], pub n: usize }
impl Ids { pub fn as_slice(&self) -> &[i32] { &self.items[..self.n] } }
#[derive(Clone, Copy)]
pub struct DataFile { pub fields: Ids }
#[derive(Clone, Copy)]
pub struct Files { pub items: [DataFile; 2], pub n: usize }
impl Files { pub fn iter(&self) -> std::slice::Iter<'_, DataFile> { self.items[..self.n].iter() } }
#[derive(Clone, Copy)]
pub struct Fragment { pub id: u64, pub files: Files }
/// stands for lance_core::datatypes::Schema: only max_field_id() is used
pub struct Schema { pub max: Option<i32> }
impl Schema { pub fn max_field_id(&self) -> Option<i32> { self.max } }
/// stands for Arc<Vec<Fragment>>: a fixed array + length exposing the two methods the text calls (is_empty, iter);
/// CBMC models heap Vecs byte-wise, which made the Vec version 50x slower (measured)
pub struct Frags { pub items: [Fragment; 8], pub n: usize }
const NO_FILES: Files = Files { items: [DataFile { fields: Ids { items: [0; 2], n: 0 } }; 2], n: 0 };
impl Frags {
    pub fn is_empty(&self) -> bool { self.n == 0 }
    pub fn iter(&self) -> std::slice::Iter<'_, Fragment> { self.items[..self.n].iter() }
    pub fn last(&self) -> Option<&Fragment> { self.items[..self.n].last() }
    pub fn first(&self) -> Option<&Fragment> { self.items[..self.n].first() }
}
pub struct Manifest { pub fragments: Frags, pub max_fragment_id: Option<u32>, pub schema: Schema }
include!("gen/maxfrag.rs");

#[cfg(kani)]
mod proofs {
    use super::*;
    /// C05 clause "fragment ids ... not above the recorded maximum" + the high-water mark never moves down
    #[kani::proof]
    #[kani::unwind(10)]
    fn max_fragment_id_is_a_high_water_mark() {
        let n: usize = kani::any(); kani::assume(n <= 8);
        let ids: [u32; 8] = kani::any();
        let f = |i: usize| Fragment { id: ids[i] as u64, files: NO_FILES };
        let old: Option<u32> = if kani::any() { Some(kani::any()) } else { None };
        let mut m = Manifest { fragments: Frags { items: [f(0), f(1), f(2), f(3), f(4), f(5), f(6), f(7)], n }, max_fragment_id: old, schema: Schema { max: None } };
        m.update_max_fragment_id();
        if n == 0 {
            assert!(m.max_fragment_id == old, "empty table changes the recorded maximum");
        } else {
            let mx = m.max_fragment_id.unwrap();
            for i in 0..8 { assert!(i >= n || mx >= ids[i], "a fragment id is above the recorded maximum"); }
            if let Some(o) = old { assert!(mx >= o, "recorded maximum moved down (ids could be reused)"); }
            assert!(Some(mx) == old || (0..8).any(|i| i < n && mx == ids[i]), "recorded maximum is an invented number");
        }
        // reader side agrees with what was recorded
        if m.max_fragment_id.is_some() { assert!(m.max_fragment_id() == m.max_fragment_id.map(|x| x as u64)); }
        else { assert!(m.max_fragment_id() == None); }
        kani::cover!(n == 8 && m.max_fragment_id != old);
        kani::cover!(n == 8 && m.max_fragment_id == old);
    }

    /// C05 clause "schema field ids are unique ... in every version reachable after any history": new field ids are
    /// handed out above Manifest::max_field_id(), which therefore must be a high-water mark over the schema AND over
    /// every data file of EVERY fragment (ids of dropped columns survive only in old data files).
    #[kani::proof]
    #[kani::unwind(6)]
    fn max_field_id_covers_every_data_file() {
        let n: usize = kani::any(); kani::assume(n <= 2);
        let any_ids = || { let k: usize = kani::any(); kani::assume(k <= 2); Ids { items: kani::any(), n: k } };
        let any_files = || { let k: usize = kani::any(); kani::assume(k <= 2); Files { items: [DataFile { fields: any_ids() }, DataFile { fields: any_ids() }], n: k } };
        let fr = [Fragment { id: 0, files: any_files() }, Fragment { id: 1, files: any_files() }, Fragment { id: 2, files: NO_FILES }];
        let schema_max: Option<i32> = if kani::any() { Some(kani::any()) } else { None };
        let m = Manifest { fragments: Frags { items: [fr[0], fr[1], fr[2], fr[0], fr[0], fr[0], fr[0], fr[0]], n }, max_fragment_id: None, schema: Schema { max: schema_max } };
        let r = m.max_field_id();
        let mut seen = false;
        for i in 0..3 { if i < n { for j in 0..2 { if j < fr[i].files.n { for k in 0..2 { if k < fr[i].files.items[j].fields.n {
            let id = fr[i].files.items[j].fields.items[k];
            assert!(r >= id, "a field id stored in some data file is above max_field_id (it could be handed out again)");
            if r == id { seen = true; }
        } } } } } }
        if let Some(sm) = schema_max { assert!(r >= sm, "a schema field id is above max_field_id"); if r == sm { seen = true; } }
        assert!(seen || r == -1, "max_field_id is an invented number");
        kani::cover!(n == 2 && r >= 0 && schema_max.map_or(true, |s| s < r));
    }
}
