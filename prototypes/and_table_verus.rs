use vstd::prelude::*;
use vstd::std_specs::ops::*;
verus! {

#[verifier::external_body]
pub struct RowIdTreeMap { _p: core::marker::PhantomData<u64> }
impl View for RowIdTreeMap { type V = Set<u64>; uninterp spec fn view(&self) -> Set<u64>; }

impl BitOrSpecImpl<RowIdTreeMap> for RowIdTreeMap {
    open spec fn obeys_bitor_spec() -> bool { false }
    open spec fn bitor_req(self, rhs: RowIdTreeMap) -> bool { true }
    open spec fn bitor_spec(self, rhs: RowIdTreeMap) -> RowIdTreeMap { arbitrary() }
}
impl std::ops::BitOr<RowIdTreeMap> for RowIdTreeMap {
    type Output = RowIdTreeMap;
    #[verifier::external_body]
    fn bitor(self, rhs: RowIdTreeMap) -> (r: RowIdTreeMap) ensures r@ == self@.union(rhs@) { unimplemented!() }
}
impl BitAndSpecImpl<RowIdTreeMap> for RowIdTreeMap {
    open spec fn obeys_bitand_spec() -> bool { false }
    open spec fn bitand_req(self, rhs: RowIdTreeMap) -> bool { true }
    open spec fn bitand_spec(self, rhs: RowIdTreeMap) -> RowIdTreeMap { arbitrary() }
}
impl std::ops::BitAnd<RowIdTreeMap> for RowIdTreeMap {
    type Output = RowIdTreeMap;
    #[verifier::external_body]
    fn bitand(self, rhs: RowIdTreeMap) -> (r: RowIdTreeMap) ensures r@ == self@.intersect(rhs@) { unimplemented!() }
}

pub struct RowIdMask {
    pub allow_list: Option<RowIdTreeMap>,
    pub block_list: Option<RowIdTreeMap>,
}
impl RowIdMask {
    pub open spec fn sel(&self, x: u64) -> bool {
        (self.allow_list is None || self.allow_list->0@.contains(x)) &&
        (self.block_list is None || !self.block_list->0@.contains(x))
    }
}
impl BitAndSpecImpl<RowIdMask> for RowIdMask {
    open spec fn obeys_bitand_spec() -> bool { false }
    open spec fn bitand_req(self, rhs: RowIdMask) -> bool { true }
    open spec fn bitand_spec(self, rhs: RowIdMask) -> RowIdMask { arbitrary() }
}
impl std::ops::BitAnd for RowIdMask {
    type Output = Self;

    fn bitand(self, rhs: Self) -> (r: Self::Output)
        ensures forall|x: u64| r.sel(x) == (self.sel(x) && rhs.sel(x))
    {
        let block_list = match (self.block_list, rhs.block_list) {
            (None, None) => None,
            (Some(lhs), None) => Some(lhs),
            (None, Some(rhs)) => Some(rhs),
            (Some(lhs), Some(rhs)) => Some(lhs | rhs),
        };
        let allow_list = match (self.allow_list, rhs.allow_list) {
            (None, None) => None,
            (Some(lhs), None) => Some(lhs),
            (None, Some(rhs)) => Some(rhs),
            (Some(lhs), Some(rhs)) => Some(lhs & rhs),
        };
        Self {
            block_list,
            allow_list,
        }
    }
}

pub enum IndexExprResult {
    Exact(RowIdMask),
    AtMost(RowIdMask),
    AtLeast(RowIdMask),
}
pub struct Error;
pub type Result<T> = std::result::Result<T, Error>;

pub open spec fn sound(r: IndexExprResult, t: Set<u64>) -> bool {
    match r {
        IndexExprResult::Exact(m) => forall|x: u64| m.sel(x) == t.contains(x),
        IndexExprResult::AtMost(m) => forall|x: u64| t.contains(x) ==> m.sel(x),
        IndexExprResult::AtLeast(m) => forall|x: u64| m.sel(x) ==> t.contains(x),
    }
}

fn and_table(lhs_result: IndexExprResult, rhs_result: IndexExprResult, Ghost(t1): Ghost<Set<u64>>, Ghost(t2): Ghost<Set<u64>>) -> (r: Result<IndexExprResult>)
    requires sound(lhs_result, t1), sound(rhs_result, t2)
    ensures r is Ok && sound(r->Ok_0, t1.intersect(t2))
{
                match (lhs_result, rhs_result) {
                    (IndexExprResult::Exact(lhs), IndexExprResult::Exact(rhs)) => {
                        Ok(IndexExprResult::Exact(lhs & rhs))
                    }
                    (IndexExprResult::Exact(lhs), IndexExprResult::AtMost(rhs))
                    | (IndexExprResult::AtMost(lhs), IndexExprResult::Exact(rhs)) => {
                        Ok(IndexExprResult::AtMost(lhs & rhs))
                    }
                    (IndexExprResult::Exact(lhs), IndexExprResult::AtLeast(_)) => {
                        Ok(IndexExprResult::AtMost(lhs))
                    }
                    (IndexExprResult::AtLeast(_), IndexExprResult::Exact(rhs)) => {
                        Ok(IndexExprResult::AtMost(rhs))
                    }
                    (IndexExprResult::AtMost(lhs), IndexExprResult::AtMost(rhs)) => {
                        Ok(IndexExprResult::AtMost(lhs & rhs))
                    }
                    (IndexExprResult::AtLeast(lhs), IndexExprResult::AtLeast(rhs)) => {
                        Ok(IndexExprResult::AtLeast(lhs & rhs))
                    }
                    (IndexExprResult::AtLeast(_), IndexExprResult::AtMost(rhs)) => {
                        Ok(IndexExprResult::AtMost(rhs))
                    }
                    (IndexExprResult::AtMost(lhs), IndexExprResult::AtLeast(_)) => {
                        Ok(IndexExprResult::AtMost(lhs))
                    }
                }
}
}
fn main() {}
