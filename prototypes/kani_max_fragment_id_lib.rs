#![allow(dead_code)]
use std::sync::Arc;
pub struct Fragment { pub id: u64 }
pub struct Manifest { pub fragments: Arc<Vec<Fragment>>, pub max_fragment_id: Option<u32> }
include!("extracted.rs");
#[cfg(kani)]
mod proofs {
    use super::*;
    #[kani::proof]
    #[kani::unwind(5)]
    fn max_frag_id() {
        let n: usize = kani::any(); kani::assume(n <= 3);
        let a: u32 = kani::any(); let b: u32 = kani::any(); let c: u32 = kani::any();
        let mut v = Vec::new();
        if n >= 1 { v.push(Fragment { id: a as u64 }); }
        if n >= 2 { v.push(Fragment { id: b as u64 }); }
        if n >= 3 { v.push(Fragment { id: c as u64 }); }
        let old: Option<u32> = if kani::any() { Some(kani::any()) } else { None };
        let mut m = Manifest { fragments: Arc::new(v), max_fragment_id: old };
        m.update_max_fragment_id();
        if n == 0 { assert!(m.max_fragment_id == old); } else {
            let mx = m.max_fragment_id.unwrap();
            assert!(n < 1 || mx >= a); assert!(n < 2 || mx >= b); assert!(n < 3 || mx >= c);
            if let Some(o) = old { assert!(mx >= o); }
            // and it is not invented: equals old or one of the ids
            assert!(Some(mx) == old || (n >= 1 && mx == a) || (n >= 2 && mx == b) || (n >= 3 && mx == c));
        }
        // reader side: max_fragment_id() agrees
        kani::cover!(n == 3 && m.max_fragment_id != old);
    }
}
