use vstd::prelude::*;
verus! {
#[derive(Debug, Copy, Clone)]
struct Block([u32; 8]);

impl Block {
    #[verifier::external_body]
    fn mask(x: u32) -> (r: Self)
        ensures forall|i: int| 0 <= i < 8 ==> r.0[i] != 0u32,
    { unimplemented!() }

    /// Setting every bit in the block that was also set in the result from mask
    fn insert(&mut self, hash: u32) {
        let mask = Self::mask(hash);
        for i in 0..8 {
            self[i] |= mask[i];
        }
    }

    /// Returns true when every bit that is set in the result of mask is also set in the block.
    fn check(&self, hash: u32) -> bool {
        let mask = Self::mask(hash);
        for i in 0..8 {
            if self[i] & mask[i] == 0 {
                return false;
            }
        }
        true
    }
}

impl std::ops::Index<usize> for Block {
    type Output = u32;

    #[inline]
    fn index(&self, index: usize) -> &Self::Output {
        self.0.index(index)
    }
}

impl std::ops::IndexMut<usize> for Block {
    #[inline]
    fn index_mut(&mut self, index: usize) -> &mut Self::Output {
        self.0.index_mut(index)
    }
}
}
fn main() {}
