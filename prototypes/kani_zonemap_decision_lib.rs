#![allow(dead_code, unused_macros)]
extern crate alloc;
use std::cmp::Ordering;
macro_rules! location { () => { () }; }
#[derive(Debug)]
pub enum Error { NotSupported { source: Box<dyn std::error::Error + Send + Sync>, location: () } }
pub type Result<T> = std::result::Result<T, Error>;

#[derive(Clone, Copy, Debug, PartialEq)]
pub struct F16(pub u16);
impl F16 { pub fn is_nan(&self) -> bool { (self.0 & 0x7c00) == 0x7c00 && (self.0 & 0x03ff) != 0 } }

// shim of datafusion_common::ScalarValue restricted to the variants the function names (+ Int64 as "any other type").
// Assumed contract of its PartialOrd: same-variant only; Option order None < Some; floats by total_cmp.
#[derive(Clone, Debug, PartialEq)]
pub enum ScalarValue { Null, Int64(Option<i64>), Float16(Option<F16>), Float32(Option<f32>), Float64(Option<f64>) }
impl ScalarValue {
    pub fn is_null(&self) -> bool {
        matches!(self, Self::Null | Self::Int64(None) | Self::Float16(None) | Self::Float32(None) | Self::Float64(None))
    }
}
impl PartialOrd for ScalarValue {
    fn partial_cmp(&self, other: &Self) -> Option<Ordering> {
        match (self, other) {
            (Self::Int64(a), Self::Int64(b)) => a.partial_cmp(b),
            (Self::Float32(a), Self::Float32(b)) => match (a, b) {
                (Some(x), Some(y)) => Some(x.total_cmp(y)),
                (None, None) => Some(Ordering::Equal), (None, Some(_)) => Some(Ordering::Less), (Some(_), None) => Some(Ordering::Greater) },
            (Self::Float64(a), Self::Float64(b)) => match (a, b) {
                (Some(x), Some(y)) => Some(x.total_cmp(y)),
                (None, None) => Some(Ordering::Equal), (None, Some(_)) => Some(Ordering::Less), (Some(_), None) => Some(Ordering::Greater) },
            (Self::Null, Self::Null) => Some(Ordering::Equal),
            _ => None,
        }
    }
}
pub struct FtsQuery;
pub enum SargableQuery {
    Range(std::ops::Bound<ScalarValue>, std::ops::Bound<ScalarValue>),
    IsIn(Vec<ScalarValue>),
    Equals(ScalarValue),
    FullTextSearch(FtsQuery),
    IsNull(),
}
pub struct ZoneMapStatistics { pub min: ScalarValue, pub max: ScalarValue, pub null_count: u32, pub nan_count: u32 }
pub struct ZoneMapIndex;

include!("extracted.rs");

#[cfg(kani)]
mod proofs {
    use super::*;
    use std::ops::Bound;
    fn lit() -> ScalarValue { if kani::any() { ScalarValue::Int64(Some(kani::any())) } else { ScalarValue::Int64(None) } }
    fn bound() -> Bound<ScalarValue> { match kani::any::<u8>() % 3 { 0 => Bound::Unbounded, 1 => Bound::Included(ScalarValue::Int64(Some(kani::any()))), _ => Bound::Excluded(ScalarValue::Int64(Some(kani::any()))) } }
    fn sat_lo(b: &Bound<ScalarValue>, x: i64) -> bool { match b { Bound::Unbounded => true, Bound::Included(ScalarValue::Int64(Some(s))) => x >= *s, Bound::Excluded(ScalarValue::Int64(Some(s))) => x > *s, _ => false } }
    fn sat_hi(b: &Bound<ScalarValue>, x: i64) -> bool { match b { Bound::Unbounded => true, Bound::Included(ScalarValue::Int64(Some(s))) => x <= *s, Bound::Excluded(ScalarValue::Int64(Some(s))) => x < *s, _ => false } }
    fn fmt_stub(_a: std::fmt::Arguments<'_>) -> String { String::new() }

    // An Int64 zone: some row of the zone holds `v` (None = NULL row). Statistics are consistent with it.
    #[kani::proof]
    #[kani::unwind(4)]
    #[kani::stub(alloc::fmt::format, fmt_stub)]
    fn int_zone_never_prunes_a_match() {
        let v: Option<i64> = if kani::any() { Some(kani::any()) } else { None };
        let null_count: u32 = kani::any(); let nan_count: u32 = 0;
        let all_null: bool = kani::any();
        let (zmin, zmax) = if all_null { (ScalarValue::Int64(None), ScalarValue::Int64(None)) } else {
            let lo: i64 = kani::any(); let hi: i64 = kani::any(); kani::assume(lo <= hi);
            (ScalarValue::Int64(Some(lo)), ScalarValue::Int64(Some(hi))) };
        match v {
            None => kani::assume(null_count > 0),
            Some(x) => { kani::assume(!all_null);
                if let (ScalarValue::Int64(Some(lo)), ScalarValue::Int64(Some(hi))) = (&zmin, &zmax) { kani::assume(*lo <= x && x <= *hi); } }
        }
        let zone = ZoneMapStatistics { min: zmin, max: zmax, null_count, nan_count };
        let which: u8 = kani::any::<u8>() % 4;
        let (q, matches) = match which {
            0 => (SargableQuery::IsNull(), v.is_none()),
            1 => { let t = lit(); let m = match (&t, v) { (ScalarValue::Int64(Some(c)), Some(x)) => *c == x, _ => false }; (SargableQuery::Equals(t), m) }
            2 => { let lo = bound(); let hi = bound(); let m = match v { Some(x) => sat_lo(&lo, x) && sat_hi(&hi, x), None => false }; (SargableQuery::Range(lo, hi), m) }
            _ => { let a = lit(); let b = lit();
                   let m = match v { Some(x) => a == ScalarValue::Int64(Some(x)) || b == ScalarValue::Int64(Some(x)), None => false };
                   (SargableQuery::IsIn(vec![a, b]), m) }
        };
        let r = ZoneMapIndex.evaluate_zone_against_query(&zone, &q);
        if matches { assert!(matches!(r, Ok(true))); }
        kani::cover!(matches && which == 2);
        kani::cover!(matches!(r, Ok(false)));
    }
}
