//! Kani unit `rowid_index`: the REAL text of `decompose_sequence` and `struct FragmentRowIdIndex`
//! (rust/lance-table/src/rowids/index.rs) -- the step of RowIdIndex::new that turns one fragment's row-id sequence
//! and deletion vector into (row id, row address) pairs -- compiled against array-backed SHIMS of U64Segment,
//! RowIdSequence and DeletionVector; RowAddress is the REAL file (#[path]-included, it has no imports).
#![allow(dead_code, unused_macros, unused_imports, clippy::all)]
use std::ops::RangeInclusive;
use std::sync::Arc;
#[path = "/repo/rust/lance-core/src/utils/address.rs"]
pub mod address;
use address::RowAddress;

pub const SEG_CAP: usize = 2;
/// shim of U64Segment: an explicit list of at most 3 ids (whatever encoding the real segment picks, C34's other
/// units deal with that); only len / iter / from_iter / range are used by the text
#[derive(Clone, Copy, Debug, PartialEq)]
pub struct U64Segment { pub items: [u64; SEG_CAP], pub n: usize }
impl U64Segment {
    pub fn len(&self) -> usize { self.n }
    pub fn iter(&self) -> impl Iterator<Item = u64> + '_ { self.items[..self.n].iter().copied() }
    pub fn from_iter(it: impl IntoIterator<Item = u64>) -> Self {
        let mut s = Self { items: [0; SEG_CAP], n: 0 };
        for v in it { assert!(s.n < SEG_CAP, "shim: segment capacity"); s.items[s.n] = v; s.n += 1; }
        s
    }
    pub fn range(&self) -> Option<RangeInclusive<u64>> {
        if self.n == 0 { return None; }
        let (mut lo, mut hi) = (self.items[0], self.items[0]);
        let mut i = 1; while i < self.n { if self.items[i] < lo { lo = self.items[i]; } if self.items[i] > hi { hi = self.items[i]; } i += 1; }
        Some(lo..=hi)
    }
}
pub const SEQ_CAP: usize = 2;
pub struct SegVec { pub items: [U64Segment; SEQ_CAP], pub n: usize }
impl SegVec { pub fn iter(&self) -> std::slice::Iter<'_, U64Segment> { self.items[..self.n].iter() } }
pub struct RowIdSequence(pub SegVec);
/// shim of lance_core::utils::deletion::DeletionVector: a bit set over row offsets 0..16
pub struct DeletionVector { pub bits: u16 }
impl DeletionVector { pub fn contains(&self, i: u32) -> bool { i < 16 && self.bits & (1 << i) != 0 } }

include!("gen/index.rs");

#[cfg(kani)]
mod proofs {
    use super::*;
    fn any_seg() -> U64Segment {
        let n: usize = kani::any(); kani::assume(n <= SEG_CAP);
        U64Segment { items: kani::any(), n }
    }
    /// C34 / C15: "the row id index built from fragments maps every present id to its position and no absent id to
    /// anything".  For one fragment: the chunks produced list, in order, exactly the (row id, address) pairs of the
    /// rows that are NOT deleted, where the address of the k-th row of the fragment (counting deleted rows and rows of
    /// fully deleted segments) is first_row(fragment) + k; segments whose rows are all deleted produce no chunk.
    #[kani::proof]
    #[kani::unwind(4)]
    fn chunks_are_exactly_the_live_rows() {
        let nseg: usize = kani::any(); kani::assume(nseg <= SEQ_CAP);
        let segs = [any_seg(), any_seg()];
        let frag: u32 = kani::any(); kani::assume(frag < u32::MAX);
        let dv_bits: u16 = kani::any();
        let fi = FragmentRowIdIndex { fragment_id: frag,
            row_id_sequence: Arc::new(RowIdSequence(SegVec { items: segs, n: nseg })),
            deletion_vector: Arc::new(DeletionVector { bits: dv_bits }) };
        let out = decompose_sequence(&fi);
        // oracle: walk the rows of the fragment in order
        let base: u64 = ((frag as u64) << 32);
        let mut k: u32 = 0;            // row offset within the fragment
        let mut c = 0usize;            // next output chunk
        let mut s = 0;
        while s < SEQ_CAP {
            if s < nseg {
                let seg = &segs[s];
                let mut live = 0usize;
                let mut i = 0;
                while i < SEG_CAP {
                    if i < seg.n {
                        let deleted = dv_bits & (1 << k) != 0;
                        if !deleted {
                            assert!(c < out.len(), "a live row is missing from the index");
                            let (_, (ids, addrs)) = &out[c];
                            assert!(live < ids.n && live < addrs.n, "a live row is missing from the index");
                            assert!(ids.items[live] == seg.items[i], "row id at the wrong position");
                            assert!(addrs.items[live] == base + k as u64, "row id mapped to the wrong address");
                            live += 1;
                        }
                        k += 1;
                    }
                    i += 1;
                }
                if live > 0 {
                    let (cov, (ids, addrs)) = &out[c];
                    assert!(ids.n == live && addrs.n == live, "index lists a row that is deleted or absent");
                    assert!(Some(cov.clone()) == ids.range(), "coverage is not the id range of the chunk");
                    c += 1;
                }
            }
            s += 1;
        }
        assert!(c == out.len(), "index has a chunk for rows that do not exist");
        kani::cover!(out.len() == 1 && nseg == 2 && segs[0].n > 0 && segs[1].n > 0);   // a fully deleted segment
        kani::cover!(out.len() == 2);
    }
}
