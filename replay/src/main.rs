//! verif-replay <key> [--seed N] [--iters N] [--input JSON]
//!
//! For each contracted obligation that has an executable mirror, searches (boundary
//! enumeration, then seeded random) for an input on which the REAL function in /repo
//! violates the postcondition, and prints one JSON object:
//!   {"key":..,"found":true,"input":..,"observed":..,"required":..}  or {"found":false,"tried":N}
//! `audit-*` keys execute the assumed contracts of /repo callees (assumption audit).
mod address;
mod deletion;
mod mask;
mod rng;

fn main() {
    let args: Vec<String> = std::env::args().collect();
    if args.len() < 2 {
        eprintln!("usage: verif-replay <key> [--seed N] [--iters N]");
        std::process::exit(2);
    }
    let key = args[1].as_str();
    let mut seed = 0u64;
    let mut iters = 100_000u64;
    let mut i = 2;
    while i < args.len() {
        match args[i].as_str() {
            "--seed" => {
                seed = args[i + 1].parse().unwrap();
                i += 2
            }
            "--iters" => {
                iters = args[i + 1].parse().unwrap();
                i += 2
            }
            _ => i += 1,
        }
    }
    let out = match key {
        k if k.starts_with("mask-") || k.starts_with("audit-treemap") || k.starts_with("treemap-") => {
            mask::run(k, seed, iters)
        }
        k if k.starts_with("address") => address::run(k, seed, iters),
        k if k.starts_with("offset-mapper") || k.starts_with("audit-deletion") => deletion::run(k, seed, iters),
        _ => {
            println!("{{\"key\":\"{}\",\"found\":false,\"error\":\"unknown key\"}}", key);
            std::process::exit(2);
        }
    };
    println!("{}", out);
}
