//! Executable mirrors of the `mask` unit's postconditions, run on the real lance-core.
use crate::rng::Rng;
use lance_core::utils::mask::{RowIdMask, RowIdTreeMap};

const U: [u64; 8] = [0, 1, 2, 3, u32::MAX as u64, 1 << 32, (1 << 32) + 1, u64::MAX];
const PROBES: [u64; 11] = [0, 1, 2, 3, u32::MAX as u64, 1 << 32, (1 << 32) + 1, u64::MAX, 7, 1 << 40, (5 << 32) + 9];

fn set_of(bits: u32, n: usize) -> RowIdTreeMap {
    let mut m = RowIdTreeMap::new();
    for i in 0..n {
        if bits >> i & 1 == 1 {
            m.insert(U[i]);
        }
    }
    m
}
fn set_desc(bits: u32, n: usize) -> String {
    let v: Vec<String> = (0..n).filter(|i| bits >> i & 1 == 1).map(|i| U[i].to_string()).collect();
    format!("{{{}}}", v.join(","))
}
/// code: 0 = None, k+1 = Some(subset k)
fn mask_of(a: u32, b: u32, n: usize) -> RowIdMask {
    RowIdMask {
        allow_list: if a == 0 { None } else { Some(set_of(a - 1, n)) },
        block_list: if b == 0 { None } else { Some(set_of(b - 1, n)) },
    }
}
fn mask_desc(a: u32, b: u32, n: usize) -> String {
    format!(
        "RowIdMask{{allow_list:{},block_list:{}}}",
        if a == 0 { "None".to_string() } else { format!("Some({})", set_desc(a - 1, n)) },
        if b == 0 { "None".to_string() } else { format!("Some({})", set_desc(b - 1, n)) }
    )
}
fn sel(m: &RowIdMask, x: u64) -> bool {
    // the spec function `sel` of the unit, evaluated through the real `contains`
    m.allow_list.as_ref().map(|a| a.contains(x)).unwrap_or(true)
        && !m.block_list.as_ref().map(|b| b.contains(x)).unwrap_or(false)
}
fn found(key: &str, input: String, x: u64, observed: bool, required: bool) -> String {
    format!(
        "{{\"key\":\"{}\",\"found\":true,\"input\":\"{}\",\"probe_row_id\":{},\"observed_selected\":{},\"required_selected\":{}}}",
        key, input, x, observed, required
    )
}

fn unary(key: &str, a: u32, b: u32, n: usize) -> Option<String> {
    let m = mask_of(a, b, n);
    match key {
        "mask-not" => {
            let r = !m.clone();
            for &x in &PROBES {
                if sel(&r, x) != !sel(&m, x) {
                    return Some(found(key, format!("!{}", mask_desc(a, b, n)), x, sel(&r, x), !sel(&m, x)));
                }
            }
        }
        "mask-normalize" => {
            let r = m.clone().normalize();
            for &x in &PROBES {
                if sel(&r, x) != sel(&m, x) {
                    return Some(found(key, format!("{}.normalize()", mask_desc(a, b, n)), x, sel(&r, x), sel(&m, x)));
                }
            }
            if r.allow_list.is_some() && r.block_list.is_some() {
                return Some(found(key, format!("{}.normalize() keeps both lists", mask_desc(a, b, n)), 0, true, false));
            }
        }
        "mask-selected" => {
            for &x in &PROBES {
                if m.selected(x) != sel(&m, x) {
                    return Some(found(key, format!("{}.selected", mask_desc(a, b, n)), x, m.selected(x), sel(&m, x)));
                }
            }
        }
        _ => {}
    }
    None
}

fn binary(key: &str, a: u32, b: u32, c: u32, d: u32, n: usize) -> Option<String> {
    let l = mask_of(a, b, n);
    let r = mask_of(c, d, n);
    match key {
        "mask-bitand" | "mask-bitor" => {
            let and = key == "mask-bitand";
            let res = if and { l.clone() & r.clone() } else { l.clone() | r.clone() };
            for &x in &PROBES {
                let req = if and { sel(&l, x) && sel(&r, x) } else { sel(&l, x) || sel(&r, x) };
                if sel(&res, x) != req {
                    return Some(found(
                        key,
                        format!("{} {} {}", mask_desc(a, b, n), if and { "&" } else { "|" }, mask_desc(c, d, n)),
                        x,
                        sel(&res, x),
                        req,
                    ));
                }
            }
        }
        "mask-also_block" | "mask-also_allow" => {
            // second operand: a plain set (c-1), c==0 means empty set
            let s = set_of(c.saturating_sub(1), n);
            let blk = key == "mask-also_block";
            let res = if blk { l.clone().also_block(s.clone()) } else { l.clone().also_allow(s.clone()) };
            for &x in &PROBES {
                let req = if blk {
                    sel(&l, x) && !s.contains(x)
                } else {
                    (l.allow_list.as_ref().map(|al| al.contains(x) || s.contains(x)).unwrap_or(true))
                        && !l.block_list.as_ref().map(|b| b.contains(x)).unwrap_or(false)
                };
                if sel(&res, x) != req {
                    return Some(found(
                        key,
                        format!("{}.{}({})", mask_desc(a, b, n), &key[5..], set_desc(c.saturating_sub(1), n)),
                        x,
                        sel(&res, x),
                        req,
                    ));
                }
            }
        }
        _ => {}
    }
    None
}

/// assumption audit: the assumed contracts of RowIdTreeMap::{|, &, -=, contains, new, is_empty}
fn audit(a: u32, b: u32, n: usize) -> Option<String> {
    let (sa, sb) = (set_of(a, n), set_of(b, n));
    let or = sa.clone() | sb.clone();
    let and = sa.clone() & sb.clone();
    let mut sub = sa.clone();
    sub -= &sb;
    for &x in &PROBES {
        let (ca, cb) = (sa.contains(x), sb.contains(x));
        let ina = U[..n].iter().enumerate().any(|(i, &u)| u == x && a >> i & 1 == 1);
        if ca != ina {
            return Some(found("audit-treemap", format!("contains after insert {}", set_desc(a, n)), x, ca, ina));
        }
        if or.contains(x) != (ca || cb) {
            return Some(found("audit-treemap", format!("{} | {}", set_desc(a, n), set_desc(b, n)), x, or.contains(x), ca || cb));
        }
        if and.contains(x) != (ca && cb) {
            return Some(found("audit-treemap", format!("{} & {}", set_desc(a, n), set_desc(b, n)), x, and.contains(x), ca && cb));
        }
        if sub.contains(x) != (ca && !cb) {
            return Some(found("audit-treemap", format!("{} -= {}", set_desc(a, n), set_desc(b, n)), x, sub.contains(x), ca && !cb));
        }
    }
    if sa.is_empty() && a != 0 {
        return Some(found("audit-treemap", format!("is_empty on {}", set_desc(a, n)), 0, true, false));
    }
    None
}

pub fn run(key: &str, seed: u64, iters: u64) -> String {
    let mut tried = 0u64;
    let n_small = 4usize;
    let codes_small = (1u32 << n_small) + 1; // None + 16 subsets
    match key {
        "mask-not" | "mask-normalize" | "mask-selected" => {
            for a in 0..=(1u32 << 8) {
                for b in 0..=(1u32 << 8) {
                    tried += 1;
                    if let Some(w) = unary(key, a, b, 8) {
                        return w;
                    }
                }
            }
        }
        "mask-bitand" | "mask-bitor" => {
            for a in 0..codes_small {
                for b in 0..codes_small {
                    for c in 0..codes_small {
                        for d in 0..codes_small {
                            tried += 1;
                            if let Some(w) = binary(key, a, b, c, d, n_small) {
                                return w;
                            }
                        }
                    }
                }
            }
            let mut r = Rng(seed ^ 0xA5A5);
            for _ in 0..iters {
                tried += 1;
                let (a, b, c, d) = (r.below(258) as u32, r.below(258) as u32, r.below(258) as u32, r.below(258) as u32);
                if let Some(w) = binary(key, a, b, c, d, 8) {
                    return w;
                }
            }
        }
        "mask-also_block" | "mask-also_allow" => {
            for a in 0..=(1u32 << 6) {
                for b in 0..=(1u32 << 6) {
                    for c in 0..=(1u32 << 6) {
                        tried += 1;
                        if let Some(w) = binary(key, a, b, c, 0, 6) {
                            return w;
                        }
                    }
                }
            }
        }
        "audit-treemap" => {
            for a in 0..(1u32 << 8) {
                for b in 0..(1u32 << 8) {
                    tried += 1;
                    if let Some(w) = audit(a, b, 8) {
                        return w;
                    }
                }
            }
        }
        "treemap-insert_range" => return insert_range(seed, iters),
        _ => return format!("{{\"key\":\"{}\",\"found\":false,\"error\":\"unknown key\"}}", key),
    }
    format!("{{\"key\":\"{}\",\"found\":false,\"tried\":{}}}", key, tried)
}

// ---------------------------------------------------------------- insert_range
use std::ops::Bound;

fn bound_desc(b: &Bound<u64>) -> String {
    match b {
        Bound::Included(v) => format!("Included({})", v),
        Bound::Excluded(v) => format!("Excluded({})", v),
        Bound::Unbounded => "Unbounded".to_string(),
    }
}

/// mathematical meaning of a (start,end) bound pair as an inclusive interval, None if empty
fn interval(s: &Bound<u64>, e: &Bound<u64>) -> Option<(u64, u64)> {
    let lo = match s {
        Bound::Included(v) => *v,
        Bound::Excluded(v) => v.checked_add(1)?,
        Bound::Unbounded => 0,
    };
    let hi = match e {
        Bound::Included(v) => *v,
        Bound::Excluded(v) => v.checked_sub(1)?,
        Bound::Unbounded => u64::MAX,
    };
    if lo <= hi {
        Some((lo, hi))
    } else {
        None
    }
}

fn check_insert_range(pre: &[u64], s: Bound<u64>, e: Bound<u64>) -> Option<String> {
    // keep the number of fragments touched small: the real code materialises one bitmap per fragment
    // (a full fragment costs 512 MB of roaring containers, so long ranges are skipped; the
    //  overflow-prone ones near the top of the id space are short)
    if let Some((lo, hi)) = interval(&s, &e) {
        if hi - lo > (1 << 20) {
            return None;
        }
    }
    let desc = format!("pre={:?}; insert_range(({}, {}))", pre, bound_desc(&s), bound_desc(&e));
    let pre_owned: Vec<u64> = pre.to_vec();
    let res = std::panic::catch_unwind(move || {
        let mut m = RowIdTreeMap::new();
        for &p in &pre_owned {
            m.insert(p);
        }
        let c = m.insert_range((s, e));
        (m, c)
    });
    let (m, count) = match res {
        Ok(v) => v,
        Err(_) => {
            return Some(format!(
                "{{\"key\":\"treemap-insert_range\",\"found\":true,\"input\":\"{}\",\"observed\":\"panic (arithmetic overflow)\",\"required\":\"no panic\"}}",
                desc
            ))
        }
    };
    let iv = interval(&s, &e);
    let mut probes: Vec<u64> = vec![0, 1, 4, 5, 6, u32::MAX as u64, 1 << 32, (1 << 32) + 1, u64::MAX, u64::MAX - 1];
    if let Some((lo, hi)) = iv {
        probes.extend_from_slice(&[lo, hi, lo.saturating_sub(1), hi.saturating_add(1), lo + (hi - lo) / 2]);
    }
    probes.extend_from_slice(pre);
    for x in probes {
        let req = pre.contains(&x) || iv.map(|(lo, hi)| lo <= x && x <= hi).unwrap_or(false);
        if m.contains(x) != req {
            return Some(format!(
                "{{\"key\":\"treemap-insert_range\",\"found\":true,\"input\":\"{}\",\"probe_row_id\":{},\"observed_contains\":{},\"required_contains\":{}}}",
                desc, x, m.contains(x), req
            ));
        }
    }
    let want: u128 = match iv {
        None => 0,
        Some((lo, hi)) => (hi as u128 - lo as u128 + 1) - pre.iter().filter(|&&p| lo <= p && p <= hi).count() as u128,
    };
    if count as u128 != want {
        return Some(format!(
            "{{\"key\":\"treemap-insert_range\",\"found\":true,\"input\":\"{}\",\"observed_count\":{},\"required_count\":{}}}",
            desc, count, want
        ));
    }
    if iv.is_none() && pre.is_empty() && !m.is_empty() {
        return Some(format!(
            "{{\"key\":\"treemap-insert_range\",\"found\":true,\"input\":\"{}\",\"observed\":\"map reports non-empty after inserting an empty range\",\"required\":\"empty\"}}",
            desc
        ));
    }
    None
}

fn insert_range(seed: u64, iters: u64) -> String {
    let top = (u32::MAX as u64) << 32;
    let vals: [u64; 15] = [0, 1, 5, 9, u32::MAX as u64 - 1, u32::MAX as u64, 1 << 32, (1 << 32) + 1, (2 << 32) + 3,
        top - 2, top, top | 5, u64::MAX - 9, u64::MAX - 1, u64::MAX];
    let mk = |k: u64, v: u64| match k {
        0 => Bound::Included(v),
        1 => Bound::Excluded(v),
        _ => Bound::Unbounded,
    };
    let mut tried = 0u64;
    for pre in [&[][..], &[5u64][..], &[(1u64 << 32) + 1, top | 7][..]] {
        for &a in &vals {
            for &b in &vals {
                for ka in 0..3 {
                    for kb in 0..3 {
                        tried += 1;
                        // Unbounded start with a far end would touch 2^32 fragments; skip those (not a defect, just slow)
                        if let Some(w) = check_insert_range(pre, mk(ka, a), mk(kb, b)) {
                            return w;
                        }
                    }
                }
            }
        }
    }
    let mut r = Rng(seed ^ 0x1234);
    for _ in 0..iters.min(20_000) {
        tried += 1;
        let base = match r.below(4) { 0 => 0, 1 => (1u64 << 32) - 8, 2 => top - 8, _ => u64::MAX - 16 };
        let a = base.wrapping_add(r.below(16));
        let b = a.saturating_add(r.below(12)).saturating_sub(2);
        let (ka, kb) = (r.below(3), r.below(3));
        let pre = [base.wrapping_add(r.below(16))];
        if let Some(w) = check_insert_range(&pre, mk(ka, a), mk(kb, b)) {
            return w;
        }
    }
    format!("{{\"key\":\"treemap-insert_range\",\"found\":false,\"tried\":{}}}", tried)
}
