//! Executable mirror of the `offset_mapper` unit's postcondition on the real lance-core, and the audit of
//! the assumed DeletionVector contracts (len / contains; range_cardinality is private and is exercised
//! only through map_offset).
use crate::rng::Rng;
use lance_core::utils::deletion::{DeletionVector, OffsetMapper};
use roaring::RoaringBitmap;
use std::collections::HashSet;
use std::sync::Arc;

fn make(kind: u32, dels: &[u32]) -> DeletionVector {
    if dels.is_empty() && kind == 2 {
        return DeletionVector::NoDeletions;
    }
    match kind % 2 {
        0 => DeletionVector::Set(dels.iter().copied().collect::<HashSet<u32>>()),
        _ => DeletionVector::Bitmap(dels.iter().copied().collect::<RoaringBitmap>()),
    }
}

/// the row a full scan shows at position `offset`
fn nth_live(dels: &[u32], offset: u32) -> u32 {
    let mut seen = 0u32;
    let mut m = 0u32;
    loop {
        if !dels.contains(&m) {
            if seen == offset {
                return m;
            }
            seen += 1;
        }
        m += 1;
    }
}

fn check_seq(kind: u32, dels: &[u32], offsets: &[u32]) -> Option<String> {
    let dv = Arc::new(make(kind, dels));
    let d2 = dels.to_vec();
    let o2 = offsets.to_vec();
    let res = std::panic::catch_unwind(move || {
        let mut mapper = OffsetMapper::new(dv);
        o2.iter().map(|&o| mapper.map_offset(o)).collect::<Vec<u32>>()
    });
    let desc = format!(
        "DeletionVector::{}({:?}); map_offset called with offsets {:?}",
        if kind % 2 == 0 { "Set" } else { "Bitmap" },
        d2,
        offsets
    );
    match res {
        Err(_) => Some(format!(
            "{{\"key\":\"offset-mapper\",\"found\":true,\"input\":\"{}\",\"observed\":\"panic\",\"required\":\"n-th live row\"}}",
            desc
        )),
        Ok(got) => {
            for (i, &o) in offsets.iter().enumerate() {
                let want = nth_live(&d2, o);
                if got[i] != want {
                    return Some(format!(
                        "{{\"key\":\"offset-mapper\",\"found\":true,\"input\":\"{}\",\"offset\":{},\"observed\":{},\"required\":{}}}",
                        desc, o, got[i], want
                    ));
                }
            }
            None
        }
    }
}

pub fn run(key: &str, seed: u64, iters: u64) -> String {
    let mut tried = 0u64;
    match key {
        "offset-mapper" => {
            std::panic::set_hook(Box::new(|_| {}));
            let n = 9u32;
            for bits in 0..(1u32 << n) {
                let dels: Vec<u32> = (0..n).filter(|i| bits >> i & 1 == 1).collect();
                for kind in 0..2 {
                    let all: Vec<u32> = (0..n + 2).collect();
                    let evens: Vec<u32> = (0..n + 2).step_by(2).collect();
                    let thirds: Vec<u32> = (1..n + 2).step_by(3).collect();
                    let dup: Vec<u32> = vec![0, 0, 3, 3, 7];
                    for seq in [&all, &evens, &thirds, &dup] {
                        tried += 1;
                        if let Some(w) = check_seq(kind, &dels, seq) {
                            return w;
                        }
                    }
                    for o in 0..n + 2 {
                        tried += 1;
                        if let Some(w) = check_seq(kind, &dels, &[o]) {
                            return w;
                        }
                    }
                }
            }
            let mut r = Rng(seed ^ 0x77);
            for _ in 0..iters.min(30_000) {
                tried += 1;
                let span = 1 + r.below(200) as u32;
                let mut dels: Vec<u32> = (0..span).filter(|_| r.below(3) == 0).collect();
                dels.dedup();
                let mut offs: Vec<u32> = (0..(1 + r.below(6))).map(|_| r.below(span as u64 + 5) as u32).collect();
                offs.sort();
                if let Some(w) = check_seq(r.below(2) as u32, &dels, &offs) {
                    return w;
                }
            }
        }
        "audit-deletion-vector" => {
            let n = 10u32;
            for bits in 0..(1u32 << n) {
                let dels: Vec<u32> = (0..n).filter(|i| bits >> i & 1 == 1).map(|i| if i == 9 { u32::MAX - 1 } else { i * 3 }).collect();
                for kind in 0..3 {
                    tried += 1;
                    let dv = make(kind, &dels);
                    if dv.len() != dels.len() {
                        return format!("{{\"key\":\"{}\",\"found\":true,\"input\":\"len of {:?}\",\"observed\":{},\"required\":{}}}", key, dels, dv.len(), dels.len());
                    }
                    for x in [0u32, 1, 3, 6, 9, 27, 28, u32::MAX - 1, u32::MAX] {
                        if dv.contains(x) != dels.contains(&x) {
                            return format!("{{\"key\":\"{}\",\"found\":true,\"input\":\"contains({}) on {:?}\",\"observed\":{},\"required\":{}}}", key, x, dels, dv.contains(x), dels.contains(&x));
                        }
                    }
                }
            }
        }
        _ => return format!("{{\"key\":\"{}\",\"found\":false,\"error\":\"unknown key\"}}", key),
    }
    format!("{{\"key\":\"{}\",\"found\":false,\"tried\":{}}}", key, tried)
}
