//! Executable mirror of the `address` unit's contracts on the real lance-core RowAddress.
use lance_core::utils::address::RowAddress;

pub fn run(key: &str, _seed: u64, _iters: u64) -> String {
    let vals: [u32; 12] = [0, 1, 2, 0x7fff_ffff, 0x8000_0000, 0x8000_0001, 0xffff_fffe, 0xffff_ffff, 123, 1 << 16, (1 << 16) - 1, 0xdead_beef];
    let mut tried = 0u64;
    for &f in &vals {
        for &o in &vals {
            tried += 1;
            let a = RowAddress::new_from_parts(f, o);
            let raw: u64 = a.into();
            let want = ((f as u64) << 32) + o as u64;
            if raw != want || a.fragment_id() != f || a.row_offset() != o {
                return format!(
                    "{{\"key\":\"{}\",\"found\":true,\"input\":\"RowAddress::new_from_parts({}, {})\",\"observed\":\"u64={} fragment_id={} row_offset={}\",\"required\":\"u64={} fragment_id={} row_offset={}\"}}",
                    key, f, o, raw, a.fragment_id(), a.row_offset(), want, f, o
                );
            }
            let b = RowAddress::from(want);
            if b.fragment_id() != f || b.row_offset() != o || u64::from(b) != want {
                return format!(
                    "{{\"key\":\"{}\",\"found\":true,\"input\":\"RowAddress::from({}u64)\",\"observed\":\"fragment_id={} row_offset={}\",\"required\":\"fragment_id={} row_offset={}\"}}",
                    key, want, b.fragment_id(), b.row_offset(), f, o
                );
            }
        }
        if f < u32::MAX {
            let r = RowAddress::address_range(f);
            if r.start != (f as u64) << 32 || r.end != ((f as u64) + 1) << 32 || u64::from(RowAddress::first_row(f)) != (f as u64) << 32 {
                return format!(
                    "{{\"key\":\"{}\",\"found\":true,\"input\":\"RowAddress::address_range({})\",\"observed\":\"{}..{}\",\"required\":\"{}..{}\"}}",
                    key, f, r.start, r.end, (f as u64) << 32, ((f as u64) + 1) << 32
                );
            }
        }
    }
    format!("{{\"key\":\"{}\",\"found\":false,\"tried\":{}}}", key, tried)
}
