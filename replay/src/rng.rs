//! tiny deterministic PRNG (splitmix64) so searches are reproducible from VERIF_SEED
pub struct Rng(pub u64);
impl Rng {
    pub fn next(&mut self) -> u64 {
        self.0 = self.0.wrapping_add(0x9E3779B97F4A7C15);
        let mut z = self.0;
        z = (z ^ (z >> 30)).wrapping_mul(0xBF58476D1CE4E5B9);
        z = (z ^ (z >> 27)).wrapping_mul(0x94D049BB133111EB);
        z ^ (z >> 31)
    }
    pub fn below(&mut self, n: u64) -> u64 {
        self.next() % n
    }
}
