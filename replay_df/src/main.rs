//! verif-replay-df <harness> [--seed N] [--iters N] [--input hex,hex,..]
//!
//! Executable mirrors of the postconditions of the Kani harnesses in /verif/kani/coerce/src/lib.rs, run
//! against the REAL `lance_datafusion::expr::safe_coerce_scalar` (real arrow/datafusion types, no shim).
//! `--input` carries the little-endian bytes of each `kani::any()` of the harness, in call order (Kani's
//! concrete playback); without it, boundary values and then seeded random values are tried.
//! Prints one JSON object {"key":..,"found":bool,..} on the last line.
use arrow_schema::{DataType, TimeUnit};
use datafusion_common::ScalarValue;
use lance_datafusion::expr::safe_coerce_scalar;

struct Rng(u64);
impl Rng {
    fn next(&mut self) -> u64 {
        self.0 ^= self.0 << 13;
        self.0 ^= self.0 >> 7;
        self.0 ^= self.0 << 17;
        self.0
    }
    /// boundary-biased 64-bit value
    fn interesting(&mut self) -> u64 {
        let r = self.next();
        match r % 8 {
            0 => self.next(),
            1 => (self.next() % 512).wrapping_sub(256),
            2 => (1u64 << (self.next() % 64)).wrapping_add((self.next() % 5).wrapping_sub(2)),
            3 => (!0u64 >> (self.next() % 64)).wrapping_add((self.next() % 5).wrapping_sub(2)),
            4 => (i64::MIN as u64).wrapping_add(self.next() % 4096),
            5 => (i64::MAX as u64).wrapping_sub(self.next() % 4096),
            6 => self.next() % 86_400_000_000_000,
            _ => (self.next() as i64 / 1_000_003) as u64,
        }
    }
}

type Fail = Option<(String, String, String)>; // (input, observed, required)

fn sv_int(name: &str, v: i128) -> ScalarValue {
    match name {
        "i8" => ScalarValue::Int8(Some(v as i8)),
        "i16" => ScalarValue::Int16(Some(v as i16)),
        "i32" => ScalarValue::Int32(Some(v as i32)),
        "i64" => ScalarValue::Int64(Some(v as i64)),
        "u8" => ScalarValue::UInt8(Some(v as u8)),
        "u16" => ScalarValue::UInt16(Some(v as u16)),
        "u32" => ScalarValue::UInt32(Some(v as u32)),
        "u64" => ScalarValue::UInt64(Some(v as u64)),
        _ => unreachable!(),
    }
}
/// sign/zero-extend the raw 64 bits to the mathematical value of an integer of type `name`
fn norm(name: &str, raw: u64) -> i128 {
    match name {
        "i8" => raw as i8 as i128,
        "i16" => raw as i16 as i128,
        "i32" => raw as i32 as i128,
        "i64" => raw as i64 as i128,
        "u8" => raw as u8 as i128,
        "u16" => raw as u16 as i128,
        "u32" => raw as u32 as i128,
        _ => raw as i128,
    }
}
fn int_value(s: &ScalarValue) -> Option<(&'static str, i128)> {
    Some(match s {
        ScalarValue::Int8(Some(x)) => ("i8", *x as i128),
        ScalarValue::Int16(Some(x)) => ("i16", *x as i128),
        ScalarValue::Int32(Some(x)) => ("i32", *x as i128),
        ScalarValue::Int64(Some(x)) => ("i64", *x as i128),
        ScalarValue::UInt8(Some(x)) => ("u8", *x as i128),
        ScalarValue::UInt16(Some(x)) => ("u16", *x as i128),
        ScalarValue::UInt32(Some(x)) => ("u32", *x as i128),
        ScalarValue::UInt64(Some(x)) => ("u64", *x as i128),
        _ => return None,
    })
}
const INTS: [(&str, DataType, i128, i128); 8] = [
    ("i8", DataType::Int8, i8::MIN as i128, i8::MAX as i128),
    ("i16", DataType::Int16, i16::MIN as i128, i16::MAX as i128),
    ("i32", DataType::Int32, i32::MIN as i128, i32::MAX as i128),
    ("i64", DataType::Int64, i64::MIN as i128, i64::MAX as i128),
    ("u8", DataType::UInt8, 0, u8::MAX as i128),
    ("u16", DataType::UInt16, 0, u16::MAX as i128),
    ("u32", DataType::UInt32, 0, u32::MAX as i128),
    ("u64", DataType::UInt64, 0, u64::MAX as i128),
];

fn check_from_int(src: &str, raw: u64) -> Fail {
    let v = norm(src, raw);
    let val = sv_int(src, v);
    for (tn, ty, lo, hi) in INTS.iter() {
        let r = safe_coerce_scalar(&val, ty);
        let fits = v >= *lo && v <= *hi;
        let ok = match &r {
            Some(s) => matches!(int_value(s), Some((n, x)) if n == *tn && x == v),
            None => !fits,
        };
        if !ok {
            return Some((
                format!("safe_coerce_scalar(&{:?}, &{:?})", val, ty),
                format!("{:?}", r),
                if fits { format!("Some({} as {})", v, tn) } else { format!("None ({} is not representable as {})", v, tn) },
            ));
        }
    }
    for ty in [DataType::Utf8, DataType::Boolean, DataType::Date32] {
        let r = safe_coerce_scalar(&val, &ty);
        if r.is_some() {
            return Some((format!("safe_coerce_scalar(&{:?}, &{:?})", val, ty), format!("{:?}", r), "None".into()));
        }
    }
    None
}

fn check_int_to_float(src: &str, raw: u64) -> Fail {
    let v = norm(src, raw);
    let val = sv_int(src, v);
    let (e32, e64) = if src.starts_with('u') { (v as u64 as f32, v as u64 as f64) } else { (v as i64 as f32, v as i64 as f64) };
    let r = safe_coerce_scalar(&val, &DataType::Float32);
    if !matches!(&r, Some(ScalarValue::Float32(Some(x))) if x.to_bits() == e32.to_bits()) {
        return Some((format!("safe_coerce_scalar(&{:?}, &Float32)", val), format!("{:?}", r), format!("Some(Float32({:?}))", e32)));
    }
    let r = safe_coerce_scalar(&val, &DataType::Float64);
    if !matches!(&r, Some(ScalarValue::Float64(Some(x))) if x.to_bits() == e64.to_bits()) {
        return Some((format!("safe_coerce_scalar(&{:?}, &Float64)", val), format!("{:?}", r), format!("Some(Float64({:?}))", e64)));
    }
    None
}

fn check_floats(a: f32, b: f64) -> Fail {
    let fa = ScalarValue::Float32(Some(a));
    let fb = ScalarValue::Float64(Some(b));
    let cases: [(&ScalarValue, DataType, Option<u64>); 6] = [
        (&fa, DataType::Float64, Some(f64::from(a).to_bits())),
        (&fa, DataType::Float32, Some(a.to_bits() as u64)),
        (&fb, DataType::Float32, Some((b as f32).to_bits() as u64)),
        (&fb, DataType::Float64, Some(b.to_bits())),
        (&fb, DataType::Int64, None),
        (&fa, DataType::Int32, None),
    ];
    for (v, ty, want) in cases.iter() {
        let r = safe_coerce_scalar(v, ty);
        let got = match &r {
            Some(ScalarValue::Float32(Some(x))) if *ty == DataType::Float32 => Some(x.to_bits() as u64),
            Some(ScalarValue::Float64(Some(x))) if *ty == DataType::Float64 => Some(x.to_bits()),
            None => None,
            _ => Some(u64::MAX - 1),
        };
        if got != *want {
            return Some((format!("safe_coerce_scalar(&{:?}, &{:?})", v, ty), format!("{:?}", r), format!("bits {:?}", want)));
        }
    }
    None
}

fn unit_of(s: &str) -> (TimeUnit, i64) {
    match s {
        "s" => (TimeUnit::Second, 1),
        "ms" => (TimeUnit::Millisecond, 1_000),
        "us" => (TimeUnit::Microsecond, 1_000_000),
        "ns" => (TimeUnit::Nanosecond, 1_000_000_000),
        _ => panic!("unit"),
    }
}
fn mk_ts(u: &TimeUnit, v: i64) -> ScalarValue {
    match u {
        TimeUnit::Second => ScalarValue::TimestampSecond(Some(v), None),
        TimeUnit::Millisecond => ScalarValue::TimestampMillisecond(Some(v), None),
        TimeUnit::Microsecond => ScalarValue::TimestampMicrosecond(Some(v), None),
        TimeUnit::Nanosecond => ScalarValue::TimestampNanosecond(Some(v), None),
    }
}
fn check_ts(from: &str, to: &str, v: i64) -> Fail {
    let (fu, fk) = unit_of(from);
    let (tu, tk) = unit_of(to);
    let val = mk_ts(&fu, v);
    let r = safe_coerce_scalar(&val, &DataType::Timestamp(tu.clone(), None));
    // mathematical oracle in i128: exact product (None iff it does not fit i64) / truncating quotient
    let want: Option<i64> = if tk >= fk {
        i64::try_from(v as i128 * (tk / fk) as i128).ok()
    } else {
        Some((v as i128 / (fk / tk) as i128) as i64)
    };
    let want_sv = want.map(|w| mk_ts(&tu, w));
    if r != want_sv {
        return Some((format!("safe_coerce_scalar(&{:?}, &Timestamp({:?}, None))", val, tu), format!("{:?}", r), format!("{:?}", want_sv)));
    }
    None
}

fn check_dates(d: i32, m: i64) -> Fail {
    let r = safe_coerce_scalar(&ScalarValue::Date32(Some(d)), &DataType::Date64);
    let want = Some(ScalarValue::Date64(Some(d as i64 * 86_400_000)));
    if r != want {
        return Some((format!("safe_coerce_scalar(&Date32({}), &Date64)", d), format!("{:?}", r), format!("{:?}", want)));
    }
    let q = m / 86_400_000;
    if q >= i32::MIN as i64 && q <= i32::MAX as i64 {
        let r = safe_coerce_scalar(&ScalarValue::Date64(Some(m)), &DataType::Date32);
        let want = Some(ScalarValue::Date32(Some(q as i32)));
        if r != want {
            return Some((format!("safe_coerce_scalar(&Date64({}), &Date32)", m), format!("{:?}", r), format!("{:?}", want)));
        }
    }
    let r = safe_coerce_scalar(&ScalarValue::Date32(Some(d)), &DataType::Int32);
    if r.is_some() {
        return Some((format!("safe_coerce_scalar(&Date32({}), &Int32)", d), format!("{:?}", r), "None".into()));
    }
    None
}

fn check_times(s: i32, ms: i32, us: i64, ns: i64) -> Fail {
    // in-domain values only, as in the harness
    let s = s.rem_euclid(86_400);
    let ms = ms.rem_euclid(86_400_000);
    let us = us.rem_euclid(86_400_000_000);
    let ns = ns.rem_euclid(86_400_000_000_000);
    use ScalarValue as S;
    let t32 = |u: TimeUnit| DataType::Time32(u);
    let t64 = |u: TimeUnit| DataType::Time64(u);
    let cases: Vec<(S, DataType, S)> = vec![
        (S::Time32Second(Some(s)), t32(TimeUnit::Millisecond), S::Time32Millisecond(Some((s as i64 * 1000) as i32))),
        (S::Time32Second(Some(s)), t64(TimeUnit::Microsecond), S::Time64Microsecond(Some(s as i64 * 1_000_000))),
        (S::Time32Second(Some(s)), t64(TimeUnit::Nanosecond), S::Time64Nanosecond(Some(s as i64 * 1_000_000_000))),
        (S::Time32Millisecond(Some(ms)), t32(TimeUnit::Second), S::Time32Second(Some(ms / 1000))),
        (S::Time32Millisecond(Some(ms)), t64(TimeUnit::Microsecond), S::Time64Microsecond(Some(ms as i64 * 1000))),
        (S::Time32Millisecond(Some(ms)), t64(TimeUnit::Nanosecond), S::Time64Nanosecond(Some(ms as i64 * 1_000_000))),
        (S::Time64Microsecond(Some(us)), t32(TimeUnit::Second), S::Time32Second(Some((us / 1_000_000) as i32))),
        (S::Time64Microsecond(Some(us)), t32(TimeUnit::Millisecond), S::Time32Millisecond(Some((us / 1000) as i32))),
        (S::Time64Microsecond(Some(us)), t64(TimeUnit::Nanosecond), S::Time64Nanosecond(Some(us * 1000))),
        (S::Time64Nanosecond(Some(ns)), t32(TimeUnit::Second), S::Time32Second(Some((ns / 1_000_000_000) as i32))),
        (S::Time64Nanosecond(Some(ns)), t32(TimeUnit::Millisecond), S::Time32Millisecond(Some((ns / 1_000_000) as i32))),
        (S::Time64Nanosecond(Some(ns)), t64(TimeUnit::Microsecond), S::Time64Microsecond(Some(ns / 1000))),
    ];
    for (v, ty, want) in cases {
        let r = std::panic::catch_unwind(std::panic::AssertUnwindSafe(|| safe_coerce_scalar(&v, &ty)));
        match r {
            Ok(Some(ref x)) if *x == want => {}
            other => {
                return Some((format!("safe_coerce_scalar(&{:?}, &{:?})", v, ty), format!("{:?}", other.map_err(|_| "panic")), format!("Some({:?})", want)));
            }
        }
    }
    None
}

/// how many `kani::any()` 64-bit slots the harness consumes, and the check itself
fn run_one(h: &str, a: &[u64]) -> Fail {
    let g = |i: usize| a.get(i).copied().unwrap_or(0);
    if let Some(t) = h.strip_prefix("coerce_from_") {
        return check_from_int(t, g(0));
    }
    if h.starts_with("coerce_") && h.ends_with("_to_float") {
        return check_int_to_float(&h["coerce_".len()..h.len() - "_to_float".len()], g(0));
    }
    if h == "coerce_floats" {
        return check_floats(f32::from_bits(g(0) as u32), f64::from_bits(g(1)));
    }
    if h == "coerce_dates" {
        return check_dates(g(0) as i32, g(1) as i64);
    }
    if h == "coerce_times" {
        return check_times(g(0) as i32, g(1) as i32, g(2) as i64, g(3) as i64);
    }
    if let Some(rest) = h.strip_prefix("ts_") {
        let mut it = rest.split("_to_");
        let (f, t) = (it.next().unwrap(), it.next().unwrap());
        return check_ts(f, t, g(0) as i64);
    }
    panic!("unknown harness {}", h)
}

fn boundaries() -> Vec<u64> {
    let mut v: Vec<u64> = vec![0, 1, 2, 127, 128, 129, 255, 256, 999, 1000, 1001, 32767, 32768, 65535, 65536, 86_399, 86_400, 86_399_999, 86_400_000];
    for b in [31u32, 32, 53, 62, 63] {
        let p = 1u64 << b;
        v.extend([p.wrapping_sub(1), p, p.wrapping_add(1)]);
    }
    for k in [1_000i64, 1_000_000, 1_000_000_000, 86_400_000] {
        for q in [i64::MAX / k, i64::MIN / k] {
            for d in -2i64..=2 {
                v.push(q.wrapping_add(d) as u64);
                v.push(q.wrapping_mul(k).wrapping_add(d) as u64);
            }
        }
        v.extend([(k - 1) as u64, k as u64, (k + 1) as u64, (-k + 1) as u64, (-k) as u64, (-k - 1) as u64]);
    }
    let neg: Vec<u64> = v.iter().map(|x| (*x as i64).wrapping_neg() as u64).collect();
    v.extend(neg);
    v.extend([u64::MAX, u64::MAX - 1, i64::MIN as u64, i64::MAX as u64, f32::NAN.to_bits() as u64, f64::NAN.to_bits(), f64::INFINITY.to_bits(), (-0.0f64).to_bits(), 1e300f64.to_bits(), 1e-300f64.to_bits()]);
    v
}

fn main() {
    let args: Vec<String> = std::env::args().collect();
    if args.len() < 2 {
        eprintln!("usage: verif-replay-df <harness> [--seed N] [--iters N] [--input hex,hex]");
        std::process::exit(2);
    }
    let h = args[1].trim_start_matches("coerce:").trim_start_matches("proofs::").to_string();
    let (mut seed, mut iters, mut input) = (0u64, 100_000u64, None::<Vec<u64>>);
    let mut i = 2;
    while i + 1 < args.len() {
        match args[i].as_str() {
            "--seed" => seed = args[i + 1].parse().unwrap(),
            "--iters" => iters = args[i + 1].parse().unwrap(),
            "--input" => input = Some(args[i + 1].split(',').filter(|s| !s.is_empty()).map(|s| u64::from_str_radix(s, 16).unwrap()).collect()),
            _ => {}
        }
        i += 2;
    }
    std::panic::set_hook(Box::new(|_| {}));
    let report = |how: &str, a: &[u64], f: (String, String, String), tried: u64| {
        let esc = |s: &str| s.replace('\\', "\\\\").replace('"', "\\\"");
        println!(
            "{{\"key\":\"coerce:{}\",\"found\":true,\"how\":\"{}\",\"any_values_hex\":\"{}\",\"input\":\"{}\",\"observed\":\"{}\",\"required\":\"{}\",\"tried\":{}}}",
            h, how, a.iter().map(|x| format!("{:x}", x)).collect::<Vec<_>>().join(","), esc(&f.0), esc(&f.1), esc(&f.2), tried
        );
    };
    let mut tried = 0u64;
    if let Some(a) = &input {
        tried += 1;
        if let Some(f) = run_one(&h, a) {
            report("verifier counterexample (Kani concrete playback) replayed on the real function", a, f, tried);
            return;
        }
    }
    let b = boundaries();
    for x in &b {
        for y in [b[0], *x, x.wrapping_add(1)] {
            tried += 1;
            let a = [*x, y, *x, y];
            if let Some(f) = run_one(&h, &a) {
                report("boundary enumeration on the real function", &a, f, tried);
                return;
            }
        }
    }
    let mut rng = Rng(0x9E3779B97F4A7C15 ^ seed.wrapping_mul(0xD1342543DE82EF95) | 1);
    for _ in 0..iters {
        tried += 1;
        let a = [rng.interesting(), rng.interesting(), rng.interesting(), rng.interesting()];
        if let Some(f) = run_one(&h, &a) {
            report("seeded random search on the real function", &a, f, tried);
            return;
        }
    }
    println!("{{\"key\":\"coerce:{}\",\"found\":false,\"tried\":{}}}", h, tried);
}
